//! Convert a trace written by the library's own sink (JSONLOGIC_RS_VERIF_TRACE, plain JSON texts, one block of
//! lines per apply call) into the wire forms read by the trace validators: AJ event stream (TV_Events) and AJ
//! call records (TV_Call). Used to validate the executions of the repository's own test suite.

use crate::aj;
use serde_json::{json, Value};
use std::fs::File;
use std::io::{BufRead, BufReader, BufWriter, Write};

fn die(msg: &str) -> ! {
    eprintln!("TOOL-ERROR: {}", msg);
    std::process::exit(2);
}

fn parse_text(v: &Value) -> Value {
    let t = v.as_str().unwrap_or_else(|| die("trace field is not a text"));
    serde_json::from_str(t).unwrap_or_else(|e| die(&format!("trace text {}: {}", t, e)))
}

fn depth(v: &Value) -> usize {
    match v {
        Value::Array(a) => 1 + a.iter().map(depth).max().unwrap_or(0),
        Value::Object(o) => 1 + o.values().map(depth).max().unwrap_or(0),
        _ => 0,
    }
}

/// convert-trace <sink.ndjson> <events-out.ndjson> <records-out.ndjson>
pub fn cmd_convert(args: &[String]) {
    let f = File::open(&args[0]).unwrap_or_else(|e| die(&format!("{}: {}", args[0], e)));
    let mut evw = BufWriter::new(File::create(&args[1]).unwrap());
    let mut rcw = BufWriter::new(File::create(&args[2]).unwrap());
    let mut block: Vec<Value> = Vec::new();
    let mut cur: Option<(Value, Value, Vec<Value>)> = None;
    let (mut calls, mut skipped) = (0u64, 0u64);
    let mut seen = std::collections::HashSet::new();
    for line in BufReader::new(f).lines() {
        let line = line.unwrap();
        if line.trim().is_empty() {
            continue;
        }
        let e: Value = serde_json::from_str(&line).unwrap_or_else(|er| die(&format!("sink line: {}", er)));
        match e["ev"].as_str().unwrap_or("?") {
            "call" => {
                let rule = parse_text(&e["rule"]);
                let data = parse_text(&e["data"]);
                block = vec![json!({"ev":"call","rule":aj::to_aj(&rule),"data":aj::to_aj(&data)})];
                cur = Some((rule, data, Vec::new()));
            }
            "enter" => block.push(json!({"ev":"enter","kind":e["kind"],"sym":aj::cps(e["sym"].as_str().unwrap_or("")),"depth":e["depth"]})),
            "log" => {
                let v = parse_text(&e["value"]);
                block.push(json!({"ev":"log","value":aj::to_aj(&v)}));
                if let Some(c) = cur.as_mut() {
                    c.2.push(v);
                }
            }
            "ret" => {
                let ok = e["ok"].as_bool().unwrap_or(false);
                let v = if ok { parse_text(&e["value"]) } else { Value::Null };
                block.push(json!({"ev":"ret","ok":ok,"v":aj::to_aj(&v)}));
                if let Some((rule, data, logs)) = cur.take() {
                    // values too deep for the wire format (Gson: 255 levels of AJ) are skipped and counted
                    if depth(&rule) > 40 || depth(&data) > 40 {
                        skipped += 1;
                        continue;
                    }
                    calls += 1;
                    for b in block.iter() {
                        writeln!(evw, "{}", b).unwrap();
                    }
                    let key = format!("{}\u{0}{}", rule, data);
                    if seen.insert(key) {
                        writeln!(rcw, "{}", json!({"rule": aj::to_aj(&rule), "data": aj::to_aj(&data),
                            "out": {"ok": ok, "v": aj::to_aj(&v), "log": logs.iter().map(aj::to_aj).collect::<Vec<_>>()},
                            "plain": {"rule": rule.to_string(), "data": data.to_string(), "out": {"ok": ok, "v": v.to_string()}}})).unwrap();
                    }
                }
            }
            _ => {}
        }
    }
    println!("{}", json!({"calls": calls, "skipped_too_deep": skipped, "distinct_records": seen.len()}));
}
