pub fn cmd_cli(_args: &[String]) { unimplemented!() }
