//! C18 (and the process-boundary part of C01): run TLC-exported scenarios against the real `jsonlogic` binary.
//! scenario: {"id", "rule": text, "mode": 1|2|3, "data": text, "exp": {"status": "zero"|"nonzero", "out": [AJ...]}, "pipe": [{rule2, status, out}]}
//! text: {"valid": true, "v": AJ} | {"valid": false, "cls": class}

use crate::aj;
use serde_json::{json, Value};
use std::fs::File;
use std::io::{BufRead, BufReader, BufWriter, Read, Write};
use std::process::{Command, Stdio};
use std::time::{Duration, Instant};

fn die(msg: &str) -> ! {
    eprintln!("TOOL-ERROR: {}", msg);
    std::process::exit(2);
}

/// JSON text with padding white space and object keys in REVERSE order (same value, different text)
fn spaced(v: &Value, out: &mut String) {
    match v {
        Value::Array(a) => {
            out.push_str("[ ");
            for (i, x) in a.iter().enumerate() {
                if i > 0 {
                    out.push_str(" ,\t");
                }
                spaced(x, out);
            }
            out.push_str(" ]");
        }
        Value::Object(o) => {
            out.push_str("{ ");
            for (i, (k, x)) in o.iter().rev().enumerate() {
                if i > 0 {
                    out.push_str(" , ");
                }
                out.push_str(&Value::String(k.clone()).to_string());
                out.push_str(" : ");
                spaced(x, out);
            }
            out.push_str(" }");
        }
        _ => out.push_str(&v.to_string()),
    }
}

fn materialize(t: &Value, style: u64) -> Vec<u8> {
    if t["valid"].as_bool().unwrap_or(false) {
        let v = aj::from_aj(&t["v"]).unwrap_or_else(|e| die(&e));
        return match style {
            2 => serde_json::to_string_pretty(&v).unwrap().into_bytes(),
            3 => {
                let mut s = String::from("\n  ");
                spaced(&v, &mut s);
                s.push_str(" \n");
                s.into_bytes()
            }
            // a valid text longer than 8 KiB: padded with 10 000 blanks of JSON white space
            4 => {
                let mut s = " ".repeat(5_000);
                spaced(&v, &mut s);
                s.push_str(&" ".repeat(5_000));
                s.push('\n');
                s.into_bytes()
            }
            // the compact text followed by white space only
            5 => {
                let mut s = v.to_string();
                s.push_str(" \t\n");
                s.into_bytes()
            }
            _ => v.to_string().into_bytes(),
        };
    }
    match t["cls"].as_str().unwrap_or("?") {
        "empty" => b"".to_vec(),
        "truncated" => b"{\"a\":[1,2".to_vec(),
        "garbage" => b"{\"a\":1} x".to_vec(),
        "notjson" => b"nonsense".to_vec(),
        "badutf8" => vec![0xff, 0xfe, b'{', b'}'],
        // a well-formed document except for one byte that is not UTF-8 inside a string (Latin-1 e-acute)
        "badutf8str" => b"{\"a\": \"caf\xe9\"}".to_vec(),
        "junk" => b"JUNK-ON-STDIN".to_vec(),
        // two JSON documents / junk followed by a document on a later line: not ONE JSON text
        "twodocs" => b"1\n2".to_vec(),
        "junkthendoc" => b"oops\n{\"a\": 1}\n".to_vec(),
        // a valid document, 10 000 blanks, then garbage: invalid, and longer than any single read buffer
        "longgarbage" => {
            let mut v = b"1".to_vec();
            v.extend(vec![b' '; 10_000]);
            v.push(b'2');
            v
        }
        // padding with characters that are Unicode white space but NOT JSON white space
        "ffpad" => b"\x0c{\"==\":[1,1]}".to_vec(),
        "nbsppad" => "null\u{a0}".as_bytes().to_vec(),
        // a byte order mark before the document: not JSON white space either
        // a document inside a pair of apostrophes (what a shell that does not strip them would hand over)
        "aposquoted" => b"'{\"a\": 1}'".to_vec(),
        "bompad" => "\u{feff}{\"a\": 1}".as_bytes().to_vec(),
        "nelpad" => "\u{85}1".as_bytes().to_vec(),
        "lspad" => "[1]\u{2028}".as_bytes().to_vec(),
        // nesting far beyond the parser's recursion limit: must be a parse error, never a stack overflow
        "deep100k" => {
            let mut v = vec![b'['; 60_000];
            v.extend(vec![b']'; 60_000]);
            v
        }
        "deepobj100k" => {
            let mut v = Vec::new();
            for _ in 0..20_000 {
                v.extend_from_slice(b"{\"a\":");
            }
            v.push(b'1');
            v.extend(vec![b'}'; 20_000]);
            v
        }
        // a VALID rule text at the deepest nesting the parser accepts: 126 unary negations of true
        "nest126" => {
            let mut v = Vec::new();
            for _ in 0..126 {
                v.extend_from_slice(b"{\"!\":");
            }
            v.extend_from_slice(b"true");
            v.extend(vec![b'}'; 126]);
            v
        }
        other => die(&format!("unknown text class {}", other)),
    }
}

pub struct ProcOut {
    pub code: Option<i32>,
    pub stdout: Vec<u8>,
    pub stderr: Vec<u8>,
    pub timed_out: bool,
}

pub fn spawn(bin: &str, args: &[Vec<u8>], stdin: &[u8]) -> ProcOut {
    use std::os::unix::ffi::OsStrExt;
    let mut cmd = Command::new(bin);
    for a in args {
        cmd.arg(std::ffi::OsStr::from_bytes(a));
    }
    let mut child = cmd.stdin(Stdio::piped()).stdout(Stdio::piped()).stderr(Stdio::piped()).env("RUST_BACKTRACE", "0").spawn().unwrap_or_else(|e| die(&format!("spawn {}: {}", bin, e)));
    {
        let mut si = child.stdin.take().unwrap();
        let _ = si.write_all(stdin); // the child may not read it (EPIPE is fine)
    }
    let mut so = child.stdout.take().unwrap();
    let mut se = child.stderr.take().unwrap();
    let t1 = std::thread::spawn(move || {
        let mut b = Vec::new();
        let _ = so.read_to_end(&mut b);
        b
    });
    let t2 = std::thread::spawn(move || {
        let mut b = Vec::new();
        let _ = se.read_to_end(&mut b);
        b
    });
    let start = Instant::now();
    let mut timed_out = false;
    let status = loop {
        match child.try_wait() {
            Ok(Some(s)) => break Some(s),
            Ok(None) => {
                if start.elapsed() > Duration::from_secs(20) {
                    let _ = child.kill();
                    let _ = child.wait();
                    timed_out = true;
                    break None;
                }
                std::thread::sleep(Duration::from_millis(2));
            }
            Err(_) => break None,
        }
    };
    ProcOut { code: status.and_then(|s| s.code()), stdout: t1.join().unwrap_or_default(), stderr: t2.join().unwrap_or_default(), timed_out }
}

/// Compare a process outcome with the expected status class and output lines. None = agrees.
fn judge(p: &ProcOut, exp_status: &str, exp_out: &[Value]) -> Option<(String, String)> {
    if p.timed_out {
        return Some(("hang".into(), "no exit within 20 s".into()));
    }
    let err = String::from_utf8_lossy(&p.stderr);
    match p.code {
        None => return Some(("crash".into(), "killed by a signal".into())),
        Some(101) => return Some(("crash".into(), format!("exit status 101 (panic): {}", err.lines().next().unwrap_or("")))),
        _ => {}
    }
    if err.contains("panicked at") {
        return Some(("crash".into(), format!("panic message on stderr: {}", err.lines().next().unwrap_or(""))));
    }
    let zero = p.code == Some(0);
    if zero != (exp_status == "zero") {
        return Some(("mismatch".into(), format!("exit status {:?}, expected {}", p.code, exp_status)));
    }
    let text = match std::str::from_utf8(&p.stdout) {
        Ok(t) => t,
        Err(_) => return Some(("mismatch".into(), "stdout is not UTF-8".into())),
    };
    if !text.is_empty() && !text.ends_with('\n') {
        return Some(("mismatch".into(), "stdout does not end with a newline".into()));
    }
    let lines: Vec<&str> = if text.is_empty() { vec![] } else { text[..text.len() - 1].split('\n').collect() };
    if lines.len() != exp_out.len() {
        return Some(("mismatch".into(), format!("{} stdout lines, expected {}", lines.len(), exp_out.len())));
    }
    for (i, (l, e)) in lines.iter().zip(exp_out.iter()).enumerate() {
        // each line must be exactly the serialisation of the expected value (compared as text: serde_json's
        // float parser is not an exact inverse of its printer, so re-parsing the line could be off by one ulp)
        let want = aj::from_aj(e).map(|x| x.to_string()).unwrap_or_else(|er| die(&er));
        if *l != want {
            // a zero result may be spelled 0, 0.0 or -0.0 (left open by the statements)
            let zero = |t: &str| t == "0" || t == "0.0" || t == "-0.0";
            // the order of an object's keys in the serialisation is not pinned: the same value with its keys in
            // another order is the same line
            let same_value = match (serde_json::from_str::<Value>(l), serde_json::from_str::<Value>(&want)) {
                (Ok(a), Ok(b)) => aj::same(&aj::to_aj(&a), &aj::to_aj(&b), false),
                _ => false,
            };
            if !(zero(l) && zero(&want)) && !same_value {
                return Some(("mismatch".into(), format!("stdout line {} is {}, expected {}", i + 1, l, want)));
            }
        }
    }
    None
}

pub fn cmd_cli(args: &[String]) {
    let path = &args[0];
    let out_path = &args[1];
    let bin = args.iter().position(|a| a == "--bin").map(|i| args[i + 1].clone()).unwrap_or_else(|| die("--bin required"));
    let f = File::open(path).unwrap_or_else(|e| die(&format!("{}: {}", path, e)));
    let mut out = BufWriter::new(File::create(out_path).unwrap());
    let (mut n, mut ok, mut bad, mut crashed, mut hung) = (0u64, 0u64, 0u64, 0u64, 0u64);
    let mut samples: Vec<Value> = Vec::new();
    for (ln, line) in BufReader::new(f).lines().enumerate() {
        let line = line.unwrap();
        if line.trim().is_empty() {
            continue;
        }
        let s: Value = serde_json::from_str(&line).unwrap_or_else(|e| die(&format!("{} line {}: {}", path, ln + 1, e)));
        let style = s["style"].as_u64().unwrap_or(1);
        let rule_text = materialize(&s["rule"], style);
        let data_text = materialize(&s["data"], style);
        let mode = s["mode"].as_u64().unwrap_or(1);
        let (argv, stdin): (Vec<Vec<u8>>, Vec<u8>) = match mode {
            // style 6: a valid document (the model's DV18[2]) waits on stdin although the data is an argument
            1 => (vec![rule_text.clone(), data_text.clone()], if style == 6 { b"{\"a\":5}\n".to_vec() } else { b"JUNK-ON-STDIN".to_vec() }),
            2 => (vec![rule_text.clone()], data_text.clone()),
            _ => (vec![rule_text.clone(), b"-".to_vec()], data_text.clone()),
        };
        let p = spawn(&bin, &argv, &stdin);
        n += 1;
        let exp_out: Vec<Value> = s["exp"]["out"].as_array().cloned().unwrap_or_default();
        let mut verdict = judge(&p, s["exp"]["status"].as_str().unwrap_or("?"), &exp_out);
        // faithful wrapper: the result line is exactly the library's serialisation
        if verdict.is_none() && s["rule"]["valid"] == true && s["data"]["valid"] == true {
            let rule = aj::from_aj(&s["rule"]["v"]).unwrap();
            let data = aj::from_aj(&s["data"]["v"]).unwrap();
            let lib = crate::run::run_apply(&rule, &data);
            let text = String::from_utf8_lossy(&p.stdout).to_string();
            let last = text.trim_end_matches('\n').rsplit('\n').next().unwrap_or("").to_string();
            if lib.ok != (p.code == Some(0)) {
                verdict = Some(("mismatch".into(), format!("CLI status {:?} but the library returned {}", p.code, if lib.ok { "Ok" } else { "Err" })));
            } else if lib.ok
                && last != lib.v.to_string()
                // the same value with its object members in another order is the same serialisation as far as
                // the statement goes (the process parsed the styled text, the library call the canonical value)
                && !serde_json::from_str::<Value>(&last).map(|a| aj::to_aj(&a) == aj::to_aj(&lib.v)).unwrap_or(false)
            {
                verdict = Some(("mismatch".into(), format!("CLI result line {} differs from the library's serialisation {}", last, lib.v)));
            }
        }
        let modename = ["", "argument", "stdin (argument omitted)", "stdin (-)"][mode as usize];
        let mut report = |kind: &str, why: &str, rule_t: &[u8], data_t: &[u8], expected: Value, actual: &ProcOut, extra: &str| {
            writeln!(out, "{}", json!({"kind": kind, "why": format!("{}{}", why, extra), "sc": ["C18"], "entry": "cli",
                "rule": String::from_utf8_lossy(rule_t), "data": format!("{} [data via {}]", String::from_utf8_lossy(data_t), modename),
                "expected": expected, "actual": {"status": actual.code, "stdout": String::from_utf8_lossy(&actual.stdout), "stderr_head": String::from_utf8_lossy(&actual.stderr).lines().next().unwrap_or("").to_string()},
                "profile": "cli-release"})).unwrap();
        };
        match &verdict {
            None => {
                ok += 1;
                if samples.len() < 4 {
                    samples.push(json!({"argv": argv.iter().map(|a| String::from_utf8_lossy(a).to_string()).collect::<Vec<_>>(), "stdin": String::from_utf8_lossy(&stdin), "status": p.code, "stdout": String::from_utf8_lossy(&p.stdout)}));
                }
            }
            Some((kind, why)) => {
                match kind.as_str() {
                    "crash" => crashed += 1,
                    "hang" => hung += 1,
                    _ => bad += 1,
                }
                report(kind, why, &rule_text, &data_text, s["exp"].clone(), &p, "");
            }
        }
        // chaining: feed the ACTUAL stdout of this invocation to a second one
        if verdict.is_none() {
            if let Some(pipes) = s["pipe"].as_array() {
                for (j, pe) in pipes.iter().enumerate() {
                    let r2 = aj::from_aj(&pe["rule2"]).unwrap().to_string().into_bytes();
                    let argv2: Vec<Vec<u8>> = if j % 2 == 0 { vec![r2.clone()] } else { vec![r2.clone(), b"-".to_vec()] };
                    let p2 = spawn(&bin, &argv2, &p.stdout);
                    n += 1;
                    let e2: Vec<Value> = pe["out"].as_array().cloned().unwrap_or_default();
                    match judge(&p2, pe["status"].as_str().unwrap_or("?"), &e2) {
                        None => ok += 1,
                        Some((kind, why)) => {
                            match kind.as_str() {
                                "crash" => crashed += 1,
                                "hang" => hung += 1,
                                _ => bad += 1,
                            }
                            report(&kind, &why, &r2, &p.stdout, json!({"status": pe["status"], "out": pe["out"]}), &p2,
                                   &format!(" (second stage of a pipe; first stage: jsonlogic {} {})", String::from_utf8_lossy(&rule_text), String::from_utf8_lossy(&data_text)));
                        }
                    }
                }
            }
        }
    }
    writeln!(out, "{}", json!({"summary": true, "cases": n, "matched": ok, "mismatched": bad, "crashed": crashed, "hung": hung, "samples": samples, "profile": "cli-release"})).unwrap();
}
