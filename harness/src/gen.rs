pub fn cmd_record(_args: &[String]) { unimplemented!() }
