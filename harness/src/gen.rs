//! Direction B drivers: seeded random (rule, data) generators, one per property family, biased to that
//! family's corner values and kept INSIDE the domain the property statements pin. The real interpreter is
//! run on each pair and the call is recorded (AJ) for validation by TLC against the specification
//! (spec/tv/TV_Call.tla).
//!
//! Discipline (no false alarms): a computed non-integral number gets its text from spec/NumText.tla (shortest
//! round-trip digits, validated against the real serialiser by TV_NumText), which costs ~0.4 s per number in TLC,
//! so arithmetic is placed into stringifying contexts only occasionally (number-only operands); strings never contain the white-space code points on which Rust and ECMAScript
//! differ by definition; keys are strings, integers or null.

use crate::rng::Rng;
use crate::{aj, run};
use serde_json::{json, Map, Number, Value};
use std::fs::File;
use std::io::{BufWriter, Write};

fn die(msg: &str) -> ! {
    eprintln!("TOOL-ERROR: {}", msg);
    std::process::exit(2);
}

const INTS: &[i64] = &[0, 1, -1, 2, 3, 7, 10, 16, 255, -2, 100, 4294967296, 9007199254740991, 9007199254740992, 9007199254740993, -9007199254740993,
    9223372036854775807, -9223372036854775808, -9223372036854775807, 2147483647, -2147483648];
const STRS: &[&str] = &["", "a", "b", "ab", "abc", "A", "é", "😀", "héllo", "a.b", "0", "1", "-1", "1.5", " 1 ", "1e2", "0x10", "0b11", "12px", "1-2", ".5", "5.", "Infinity", "-Infinity",
    "inf", "nan", "NaN", "1e400", "true", "null", "[object Object]", "1,2", " ", "\t7\n", "+3", "--1", "9007199254740993", "1e-7", "x", "日本"];
const KEYS: &[&str] = &["a", "b", "c", "xs", "s", "n", "o", "0", "1", "é", "a.b", "var", "log"];

fn gen_int(r: &mut Rng) -> Value {
    match r.below(10) {
        0 => json!(18446744073709551615u64),
        1 => json!(9223372036854775808u64),
        2 => json!((r.next() % 1000) as i64 - 500),
        _ => json!(*r.pick(INTS)),
    }
}

fn gen_float(r: &mut Rng) -> f64 {
    match r.below(8) {
        0 => *r.pick(&[0.5, 1.5, -2.5, 0.1, 0.2, 1e21, 1e-7, 1e300, -1e300, 5e-324, 1.7976931348623157e308, 2.2250738585072014e-308, -0.0, 1e19, 1e20, 4503599627370497.5]),
        1 => {
            // random bit pattern with a moderate exponent
            let m = r.next() & ((1u64 << 52) - 1);
            let e = 1023 - 60 + (r.next() % 120);
            let s = r.next() & 1;
            f64::from_bits((s << 63) | (e << 52) | m)
        }
        2 => {
            // any finite double
            loop {
                let f = f64::from_bits(r.next());
                if f.is_finite() {
                    return f;
                }
            }
        }
        _ => ((r.next() % 2001) as f64 - 1000.0) / *r.pick(&[1.0, 2.0, 4.0, 8.0, 10.0, 3.0]),
    }
}

fn gen_num_lit(r: &mut Rng) -> Value {
    if r.chance(1, 2) {
        gen_int(r)
    } else {
        Value::Number(Number::from_f64(gen_float(r)).unwrap())
    }
}

fn gen_str(r: &mut Rng) -> String {
    if r.chance(3, 4) {
        r.pick(STRS).to_string()
    } else {
        let n = r.below(5);
        (0..n).map(|_| *r.pick(&['a', 'b', 'é', '€', '😀', '1', '.', ' ', 'x'])).collect()
    }
}

fn gen_value(r: &mut Rng, depth: usize) -> Value {
    match r.below(if depth == 0 { 5 } else { 8 }) {
        0 => Value::Null,
        1 => json!(r.chance(1, 2)),
        2 => gen_int(r),
        3 => Value::Number(Number::from_f64(gen_float(r)).unwrap()),
        4 => json!(gen_str(r)),
        5 | 6 => Value::Array((0..r.below(4)).map(|_| gen_value(r, depth - 1)).collect()),
        _ => {
            let mut m = Map::new();
            for _ in 0..r.below(4) {
                m.insert(r.pick(KEYS).to_string(), gen_value(r, depth - 1));
            }
            Value::Object(m)
        }
    }
}

/// The data every generated rule runs against: a fixed schema with random contents, plus rule-shaped markers.
fn gen_data(r: &mut Rng) -> Value {
    if r.chance(1, 12) {
        return gen_value(r, 2);
    }
    json!({
        "n": gen_num_lit(r), "i": gen_int(r), "s": gen_str(r), "b": r.chance(1, 2), "z": null,
        "xs": (0..r.below(5)).map(|_| gen_int(r)).collect::<Vec<_>>(),
        "fs": (0..r.below(4)).map(|_| gen_num_lit(r)).collect::<Vec<_>>(),
        "ss": (0..r.below(4)).map(|_| json!(gen_str(r))).collect::<Vec<_>>(),
        "vs": (0..r.below(4)).map(|_| gen_value(r, 1)).collect::<Vec<_>>(),
        "o": {"a": gen_value(r, 1), "b": {"c": [gen_int(r), gen_str(r)]}, "a.b": gen_int(r)},
        "m": [{"var": "i"}, {"log": "LEAK"}, {"+": ["x"]}],
        "k": *r.pick(&["i", "s", "o.a", "xs.0", "nope"]),
    })
}

fn var(path: &str) -> Value {
    json!({ "var": path })
}

// ---- typed expression generators -------------------------------------------------------------------
/// a number-valued (or erroring) expression; may produce non-integral results: never stringify it
fn num_expr(r: &mut Rng, d: usize) -> Value {
    if d == 0 || r.chance(1, 3) {
        return match r.below(6) {
            0 => var("n"),
            1 => var("i"),
            2 => var("xs.0"),
            3 => json!(gen_str(r)),        // strings convert (or fail to) - part of the arithmetic statement
            4 => gen_value(r, 1),          // arrays / null / bool / objects convert too
            _ => gen_num_lit(r),
        };
    }
    let n = 1 + r.below(3);
    let ops = |r: &mut Rng, n: usize| (0..n).map(|_| num_expr(r, d - 1)).collect::<Vec<_>>();
    match r.below(10) {
        0 | 1 => {
            let k = r.below(4);
            json!({"+": ops(r, k)})
        }
        2 => json!({"*": ops(r, n)}),
        3 => {
            let k = 1 + r.below(2);
            json!({"-": ops(r, k)})
        }
        4 => json!({"/": ops(r, 2)}),
        5 => json!({"%": ops(r, 2)}),
        6 => json!({"max": ops(r, n)}),
        7 => json!({"min": ops(r, n)}),
        8 => json!({"if": [bool_expr(r, d - 1), num_expr(r, d - 1), num_expr(r, d - 1)]}),
        _ => json!({"reduce": [var("xs"), {"+": [{"var": "current"}, {"var": "accumulator"}]}, num_expr(r, d - 1)]}),
    }
}

/// an expression whose value has a known text (never a computed non-integral number)
fn plain_expr(r: &mut Rng, d: usize) -> Value {
    if d == 0 || r.chance(1, 3) {
        return match r.below(9) {
            0 => var("s"),
            1 => var("i"),
            2 => var("xs"),
            3 => var("o.a"),
            4 => var("ss.0"),
            5 => var("z"),
            6 => var("vs"),
            7 => var("b"),
            _ => gen_value(r, 1),
        };
    }
    match r.below(12) {
        0 => json!({"cat": (0..r.below(4)).map(|_| plain_expr(r, d - 1)).collect::<Vec<_>>()}),
        1 => json!({"substr": [str_expr(r, d - 1), small_int(r), small_int(r)]}),
        2 => json!({"substr": [str_expr(r, d - 1), small_int(r)]}),
        3 => json!({"merge": (0..r.below(4)).map(|_| plain_expr(r, d - 1)).collect::<Vec<_>>()}),
        4 => json!({"if": [bool_expr(r, d - 1), plain_expr(r, d - 1), plain_expr(r, d - 1)]}),
        5 => json!({"and": [plain_expr(r, d - 1), plain_expr(r, d - 1)]}),
        6 => json!({"or": [plain_expr(r, d - 1), plain_expr(r, d - 1)]}),
        7 => json!({"map": [arr_expr(r, d - 1), plain_expr(r, d - 1)]}),
        8 => json!({"filter": [arr_expr(r, d - 1), bool_expr(r, d - 1)]}),
        9 => json!({"var": [*r.pick(&["nope", "o.zz", "xs.9", "s", "z"]), plain_expr(r, d - 1)]}),
        10 => json!({"log": plain_expr(r, d - 1)}),
        // an arithmetic result in a string / comparison / membership context: its text is the shortest
        // round-trip form, which the specification computes (spec/NumText.tla)
        11 if r.chance(1, 3) => num_side(r, 1),
        _ => bool_expr(r, d - 1),
    }
}

fn small_int(r: &mut Rng) -> Value {
    match r.below(8) {
        0 => json!(i64::MIN),
        1 => json!(i64::MAX),
        _ => json!(r.below(13) as i64 - 6),
    }
}

fn str_expr(r: &mut Rng, d: usize) -> Value {
    if d == 0 || r.chance(1, 2) {
        return match r.below(3) {
            0 => var("s"),
            1 => var("ss.0"),
            _ => json!(gen_str(r)),
        };
    }
    match r.below(3) {
        0 => json!({"cat": [str_expr(r, d - 1), str_expr(r, d - 1)]}),
        1 => json!({"substr": [str_expr(r, d - 1), small_int(r)]}),
        _ => json!({"if": [bool_expr(r, d - 1), str_expr(r, d - 1), str_expr(r, d - 1)]}),
    }
}

fn arr_expr(r: &mut Rng, d: usize) -> Value {
    // now and then something that is NOT a collection (the operators must reject it, every time)
    if r.chance(1, 10) {
        return match r.below(4) {
            0 => var("s"),
            1 => var("o"),
            2 => var("i"),
            _ => var("b"),
        };
    }
    match r.below(8) {
        0 => var("xs"),
        1 => var("ss"),
        2 => var("vs"),
        3 => var("m"),
        4 => Value::Array((0..r.below(4)).map(|_| gen_value(r, 1)).collect()),
        5 if d > 0 => json!({"merge": [arr_expr(r, d - 1), arr_expr(r, d - 1)]}),
        6 if d > 0 => json!({"filter": [arr_expr(r, d - 1), bool_expr(r, d - 1)]}),
        6 => var("nope"),
        _ => var("fs"),
    }
}

fn bool_expr(r: &mut Rng, d: usize) -> Value {
    if d == 0 {
        return match r.below(4) {
            0 => var("b"),
            1 => json!({"!": [var("s")]}),
            2 => json!(r.chance(1, 2)),
            _ => json!({"!!": [var("xs")]}),
        };
    }
    let rel = *r.pick(&["<", "<=", ">", ">=", "==", "!=", "===", "!=="]);
    match r.below(12) {
        // numeric against numeric: arithmetic allowed on both sides
        0 | 1 => json!({rel: [num_side(r, d - 1), num_side(r, d - 1)]}),
        // any plain values against each other
        2 | 3 => json!({rel: [plain_expr(r, d - 1), plain_expr(r, d - 1)]}),
        4 => json!({*r.pick(&["<", "<=", ">", ">="]): [plain_expr(r, d - 1), plain_expr(r, d - 1), plain_expr(r, d - 1)]}),
        5 => json!({"!": [any_expr(r, d - 1)]}),
        6 => json!({"!!": [any_expr(r, d - 1)]}),
        7 => json!({"in": [plain_expr(r, d - 1), if r.chance(1, 2) { arr_expr(r, d - 1) } else { str_expr(r, d - 1) }]}),
        8 => json!({*r.pick(&["all", "some", "none"]): [quant_coll(r, d - 1), bool_expr(r, d - 1)]}),
        9 => json!({"and": [bool_expr(r, d - 1), bool_expr(r, d - 1)]}),
        10 => json!({"or": [bool_expr(r, d - 1), bool_expr(r, d - 1)]}),
        _ => json!({"missing_some": [r.below(3), [*r.pick(KEYS), *r.pick(KEYS), "o.a", "nope"]]}),
    }
}

/// a side of a comparison that is a number (literal, numeric data, or arithmetic): never a string, so it is
/// compared numerically and never stringified
fn num_side(r: &mut Rng, d: usize) -> Value {
    match r.below(4) {
        0 => gen_num_lit(r),
        1 => var("i"),
        2 if d > 0 => {
            // arithmetic over NUMBERS only (a string operand could make the other side's text matter)
            let a = gen_num_lit(r);
            let b = gen_num_lit(r);
            json!({*r.pick(&["+", "-", "*", "/", "%", "min", "max"]): [a, b]})
        }
        _ => gen_num_lit(r),
    }
}

fn quant_coll(r: &mut Rng, d: usize) -> Value {
    match r.below(5) {
        0 => json!(gen_str(r)),
        1 => Value::Array((0..r.below(4)).map(|_| plain_expr(r, d.min(1))).collect()),
        2 => var("s"),
        _ => arr_expr(r, d),
    }
}

fn any_expr(r: &mut Rng, d: usize) -> Value {
    match r.below(4) {
        0 => num_expr(r, d),
        1 => bool_expr(r, d),
        _ => plain_expr(r, d),
    }
}

/// control flow over probes: truthiness tests and results may be anything (incl. arithmetic: only tested / returned)
fn ctl_expr(r: &mut Rng, d: usize) -> Value {
    let op = *r.pick(&["if", "?:", "and", "or"]);
    let n = r.below(6);
    let items: Vec<Value> = (0..n)
        .map(|i| match r.below(7) {
            0 => json!({"log": format!("P{}", i)}),
            1 => json!({"log": *r.pick(&[json!(0), json!(""), json!([]), json!(false), json!(null)])}),
            2 => json!({"+": ["x"]}),
            3 => json!({"==": [1]}),
            4 if d > 0 => ctl_expr(r, d - 1),
            5 => any_expr(r, d.min(1)),
            _ => gen_value(r, 1),
        })
        .collect();
    if (op == "and" || op == "or") && items.is_empty() {
        return json!({op: [gen_value(r, 1)]});
    }
    json!({op: items})
}

/// var / missing / missing_some over paths that exist in the data, perturbed
fn data_expr(r: &mut Rng) -> Value {
    let paths = ["n", "i", "s", "xs", "xs.0", "xs.-1", "xs.1", "xs.7", "ss.0", "ss.-1", "o", "o.a", "o.b.c.0", "o.b.c.1", "o.b.c.-1", "o.b.c.1.0", "o.a\\.b", "o.a.b", "s.0", "s.-1", "s.2",
        "z", "z.a", "b", "nope", "o.nope", "k", "m.0.var", "m.1.log", "vs.0", "vs.1.a", "fs.0", ""];
    let key = |r: &mut Rng| -> Value {
        match r.below(8) {
            0 => json!(r.below(7) as i64 - 3),
            1 => Value::Null,
            2 => json!({"var": "k"}),
            3 => gen_int(r),
            _ => json!(*r.pick(&paths)),
        }
    };
    match r.below(8) {
        0 => json!({"var": [key(r)]}),
        1 => json!({"var": [key(r), plain_expr(r, 1)]}),
        2 => json!({ "var": key(r) }),
        3 => json!({"missing": (0..r.below(5)).map(|_| key(r)).collect::<Vec<_>>()}),
        4 => json!({"missing": [(0..r.below(4)).map(|_| key(r)).collect::<Vec<_>>()]}),
        5 => json!({"missing_some": [r.below(4), (0..r.below(5)).map(|_| key(r)).collect::<Vec<_>>()]}),
        6 => json!({"missing": {"merge": [[key(r)], [key(r), key(r)]]}}),
        _ => json!({"if": [{"missing": [key(r)]}, "absent", {"var": [key(r)]}]}),
    }
}

fn arr_family(r: &mut Rng, d: usize) -> Value {
    match r.below(10) {
        0 => json!({"map": [arr_expr(r, d), any_expr(r, d)]}),
        1 => json!({"filter": [arr_expr(r, d), any_expr(r, d)]}),
        2 => json!({"reduce": [arr_expr(r, d), {"merge": [{"var": "accumulator"}, {"var": "current"}]}, []]}),
        3 => json!({"reduce": [var("xs"), {"+": [{"var": "current"}, {"var": "accumulator"}]}, gen_int(r)]}),
        4 => json!({"reduce": [var("ss"), {"cat": [{"var": "accumulator"}, {"var": "current"}]}, ""]}),
        5 | 6 => json!({*r.pick(&["all", "some", "none"]): [quant_coll(r, d), any_expr(r, d)]}),
        7 => json!({"merge": (0..r.below(4)).map(|_| plain_expr(r, d)).collect::<Vec<_>>()}),
        8 => json!({"in": [plain_expr(r, d), arr_expr(r, d)]}),
        _ => json!({"in": [str_expr(r, d), str_expr(r, d)]}),
    }
}

fn gen_rule(r: &mut Rng, family: &str) -> Value {
    let d = 1 + r.below(3);
    match family {
        "arith" => num_expr(r, d.max(1)),
        f if f.starts_with("rel") => {
            let ops: Vec<&str> = match f {
                "rel07" => vec!["==", "!="],
                "rel08" => vec!["===", "!=="],
                "rel09" => vec!["<", "<=", ">", ">="],
                _ => vec!["==", "!=", "===", "!==", "<", "<=", ">", ">="],
            };
            let op = *r.pick(&ops);
            if f == "rel09" && r.chance(1, 4) {
                json!({op: [plain_or_lit(r), plain_or_lit(r), plain_or_lit(r)]})
            } else {
                json!({op: [plain_or_lit(r), plain_or_lit(r)]})
            }
        }
        "ctl" => ctl_expr(r, 2),
        "data" | "data11" | "data12" => {
            if family == "data11" {
                let k = data_expr(r);
                // keep var forms
                if k.get("var").is_some() { k } else { json!({"var": ["o.b.c.0", k]}) }
            } else if family == "data12" {
                loop {
                    let k = data_expr(r);
                    if k.get("var").is_none() { break k; }
                }
            } else { data_expr(r) }
        }
        "arr" => arr_family(r, d.min(2)),
        "str" => {
            if r.chance(1, 2) {
                json!({"cat": (0..r.below(5)).map(|_| plain_expr(r, 1)).collect::<Vec<_>>()})
            } else if r.chance(1, 2) {
                json!({"substr": [str_expr(r, 1), small_int(r), small_int(r)]})
            } else {
                json!({"substr": [str_expr(r, 1), small_int(r)]})
            }
        }
        _ => match r.below(7) {
            0 => num_expr(r, d),
            1 => ctl_expr(r, 2),
            2 => data_expr(r),
            3 => arr_family(r, d.min(2)),
            4 => bool_expr(r, d),
            _ => plain_expr(r, d),
        },
    }
}

fn plain_or_lit(r: &mut Rng) -> Value {
    if r.chance(1, 2) {
        gen_value(r, 2)
    } else {
        plain_expr(r, 1)
    }
}

/// record <family> <n> <seed> <out.ndjson>
pub fn cmd_record(args: &[String]) {
    if args.len() < 4 {
        die("usage: record <family> <n> <seed> <out.ndjson>");
    }
    let family = args[0].as_str();
    let n: usize = args[1].parse().unwrap();
    let seed: u64 = args[2].parse().unwrap();
    let mut out = BufWriter::new(File::create(&args[3]).unwrap());
    run::silence_panics();
    let mut r = Rng::new(seed.wrapping_mul(0x9E37).wrapping_add(family.len() as u64 * 7919 + family.bytes().map(|b| b as u64).sum::<u64>()));
    let mut seen = std::collections::HashSet::new();
    let mut written = 0usize;
    let mut tries = 0usize;
    while written < n && tries < n * 20 {
        tries += 1;
        let rule = gen_rule(&mut r, family);
        let data = gen_data(&mut r);
        let key = format!("{}\u{0}{}", rule, data);
        if !seen.insert(key) {
            continue;
        }
        // keep the wire lines small enough for atomic appends / TLC's reader
        if rule.to_string().len() > 1500 || data.to_string().len() > 1500 {
            continue;
        }
        let o = run::run_apply(&rule, &data);
        writeln!(out, "{}", json!({"rule": aj::to_aj(&rule), "data": aj::to_aj(&data), "out": run::outcome_aj(&o),
            "plain": {"rule": rule.to_string(), "data": data.to_string(), "out": run::outcome_plain(&o)}})).unwrap();
        written += 1;
    }
}

/// numtext <n> <seed> <out.ndjson>: random finite doubles with the text the real serialiser prints (validated by TV_NumText)
pub fn cmd_numtext(args: &[String]) {
    let n: usize = args[0].parse().unwrap();
    let seed: u64 = args[1].parse().unwrap();
    let mut out = BufWriter::new(File::create(&args[2]).unwrap());
    let mut r = Rng::new(seed ^ 0x5157);
    let specials = [0.1, 0.2, 0.3, 1.0 / 3.0, 2.5, 1e15, 1e16, 1.5e16, 1e21, 1e-5, 9.5e-6, 1e-6, 1e-7, 5e-324, 1.7976931348623157e308, 2.2250738585072014e-308, 123.456, 100.5,
        9007199254740993.0, 18446744073709551616.0, 1e22, 1e23, 9.999999999999998e19, 0.000012345, 4.35, 0.30000000000000004, 1.1, 1e300, 123456789012345680.0, 8.41e21, 2f64.powi(-1074), 2f64.powi(1023)];
    for i in 0..n {
        let f = if i < specials.len() { specials[i] } else { gen_float(&mut r) };
        let f = if r.chance(1, 4) { -f } else { f };
        let num = Number::from_f64(f).unwrap();
        writeln!(out, "{}", aj::num_to_aj(&num)).unwrap();
    }
}
