//! C01: deep nesting. Rules (and data) are built as TEXT, parsed with serde_json's default recursion limit
//! (128), and evaluated on a thread with a given stack size inside a CHILD process, so that a stack overflow
//! (SIGSEGV / abort) is data for the parent, not its death.

use serde_json::{json, Value};
use std::fs::File;
use std::io::{BufWriter, Write};
use std::process::{Command, Stdio};

fn die(msg: &str) -> ! {
    eprintln!("TOOL-ERROR: {}", msg);
    std::process::exit(2);
}

/// (rule text, data text) of a shape with `levels` nested levels
fn build(shape: &str, levels: usize) -> (String, String) {
    let rep = |open: &str, leaf: &str, close: &str| -> String { format!("{}{}{}", open.repeat(levels), leaf, close.repeat(levels)) };
    // WIDE shapes: nesting depth 2, but `levels` x 2000 operands in one list (an evaluator that recurses once per
    // operand - an else-if ladder, a fold - needs stack proportional to the WIDTH)
    if let Some(kind) = shape.strip_prefix("wide-") {
        let n = levels * 2000;
        let list = |item: &str, last: &str| -> String {
            let mut t = String::with_capacity(n * (item.len() + 1) + last.len() + 2);
            for _ in 0..n {
                t.push_str(item);
                t.push(',');
            }
            t.push_str(last);
            t
        };
        let rule = match kind {
            "if" => format!("{{\"if\":[{}]}}", list("false,0", "7")),
            "if-vars" => format!("{{\"if\":[{}]}}", list("{\"var\":\"f\"},{\"var\":\"x\"}", "{\"var\":\"x\"}")),
            "and" => format!("{{\"and\":[{}]}}", list("1", "2")),
            "or" => format!("{{\"or\":[{}]}}", list("0", "2")),
            "plus" => format!("{{\"+\":[{}]}}", list("1", "1")),
            "cat" => format!("{{\"cat\":[{}]}}", list("\"a\"", "\"b\"")),
            "merge" => format!("{{\"merge\":[{}]}}", list("[1]", "2")),
            "missing" => format!("{{\"missing\":[{}]}}", list("\"a\"", "\"b\"")),
            "max" => format!("{{\"max\":[{}]}}", list("1", "2")),
            _ => die(&format!("unknown wide shape {}", shape)),
        };
        return (rule, "{\"f\":false,\"x\":1}".into());
    }
    match shape {
        "not-unary" => (rep("{\"!\":", "true", "}"), "null".into()),
        "notnot-bracket" => (rep("{\"!!\":[", "1", "]}"), "null".into()),
        "plus-bracket" => (rep("{\"+\":[", "1", "]}"), "null".into()),
        "minus-unary" => (rep("{\"-\":", "1", "}"), "null".into()),
        "cat" => (rep("{\"cat\":[\"a\",", "\"b\"", "]}"), "null".into()),
        "if-cond" => (rep("{\"if\":[", "true", ",1,2]}"), "null".into()),
        "if-branch" => (rep("{\"if\":[true,", "7", "]}"), "null".into()),
        "tern-else" => (rep("{\"?:\":[false,0,", "7", "]}"), "null".into()),
        "and" => (rep("{\"and\":[1,", "2", "]}"), "null".into()),
        "or" => (rep("{\"or\":[0,", "2", "]}"), "null".into()),
        "map-coll" => (rep("{\"map\":[", "[1,2]", ",{\"var\":\"\"}]}"), "null".into()),
        "map-expr" => (rep("{\"map\":[[1],", "{\"var\":\"\"}", "]}"), "null".into()),
        "filter-expr" => (rep("{\"filter\":[[1],", "true", "]}"), "null".into()),
        "reduce-init" => (rep("{\"reduce\":[[1],{\"var\":\"accumulator\"},", "0", "]}"), "null".into()),
        "reduce-expr" => (rep("{\"reduce\":[[1],", "{\"var\":\"current\"}", ",0]}"), "null".into()),
        "all-lit" => (rep("{\"all\":[[", "1", "],1]}"), "null".into()),
        "some-pred" => (rep("{\"some\":[[1],", "1", "]}"), "null".into()),
        "none-coll" => (rep("{\"none\":[{\"merge\":[", "[0]", "]},{\"var\":\"\"}]}"), "null".into()),
        "var-default" => (rep("{\"var\":[\"x\",", "5", "]}"), "{}".into()),
        "var-key" => (rep("{\"var\":", "\"a\"", "}"), "{\"a\":\"a\"}".into()),
        "missing" => (rep("{\"missing\":", "\"a\"", "}"), "{}".into()),
        "merge" => (rep("{\"merge\":[", "1", "]}"), "null".into()),
        "eq-left" => (rep("{\"==\":[", "1", ",1]}"), "null".into()),
        "lt-mid" => (rep("{\"<\":[0,", "1", ",2]}"), "null".into()),
        "max" => (rep("{\"max\":[", "1", ",0]}"), "null".into()),
        "in-needle" => (rep("{\"in\":[", "\"a\"", ",\"abc\"]}"), "null".into()),
        "substr" => (rep("{\"substr\":[", "\"abc\"", ",0]}"), "null".into()),
        "log" => (rep("{\"log\":", "1", "}"), "null".into()),
        // a deep LITERAL: returned untouched
        "literal-array" => (rep("[", "1", "]"), "null".into()),
        "literal-object" => (rep("{\"k\":", "1", "}"), "null".into()),
        // deep DATA walked by a path, returned whole, and stringified by cat / compared by ==
        "data-path" => (format!("{{\"var\":\"{}\"}}", vec!["k"; levels].join(".")), rep("{\"k\":", "1", "}")),
        "data-whole" => ("{\"var\":\"\"}".into(), rep("[", "1", "]")),
        "data-tostring" => ("{\"cat\":[{\"var\":\"\"},\"|\"]}".into(), rep("[", "1", "]")),
        "data-eq" => ("{\"==\":[{\"var\":\"\"},\"1\"]}".into(), rep("[", "1", "]")),
        "data-in" => ("{\"in\":[{\"var\":\"\"},[{\"var\":\"\"}]]}".into(), rep("[", "1.0", "]")),
        "data-lt" => ("{\"<\":[{\"var\":\"\"},{\"var\":\"\"}]}".into(), rep("[", "1", "]")),
        "data-plus" => ("{\"+\":[{\"var\":\"\"}]}".into(), rep("[", "1", "]")),
        _ => die(&format!("unknown shape {}", shape)),
    }
}

pub const SHAPES: &[&str] = &[
    "not-unary", "notnot-bracket", "plus-bracket", "minus-unary", "cat", "if-cond", "if-branch", "tern-else", "and", "or", "map-coll", "map-expr", "filter-expr",
    "reduce-init", "reduce-expr", "all-lit", "some-pred", "none-coll", "var-default", "var-key", "missing", "merge", "eq-left", "lt-mid", "max", "in-needle", "substr", "log",
    "literal-array", "literal-object", "data-path", "data-whole", "data-tostring", "data-eq", "data-in", "data-lt", "data-plus",
    "wide-if", "wide-if-vars", "wide-and", "wide-or", "wide-plus", "wide-cat", "wide-merge", "wide-missing", "wide-max",
];

/// child: nest-child <shape> <levels> <stack bytes>  -> prints one line: parse-err | ok | err
pub fn cmd_child(args: &[String]) {
    let shape = args[0].clone();
    let levels: usize = args[1].parse().unwrap();
    let stack: usize = args[2].parse().unwrap();
    let h = std::thread::Builder::new()
        .stack_size(stack)
        .spawn(move || {
            let (rt, dt) = build(&shape, levels);
            let rule: Value = match serde_json::from_str(&rt) {
                Ok(v) => v,
                Err(_) => return "parse-err".to_string(),
            };
            let data: Value = match serde_json::from_str(&dt) {
                Ok(v) => v,
                Err(_) => return "parse-err".to_string(),
            };
            match jsonlogic_rs::apply(&rule, &data) {
                Ok(v) => {
                    let s = v.to_string();
                    format!("ok {}", if s.len() > 60 { format!("{}...({} bytes)", &s[..40], s.len()) } else { s })
                }
                Err(_) => "err".to_string(),
            }
        })
        .unwrap();
    match h.join() {
        Ok(s) => println!("RESULT {}", s),
        Err(_) => {
            println!("RESULT panic");
            std::process::exit(101);
        }
    }
}

pub fn cmd_nest(args: &[String]) {
    let out_path = &args[0];
    let deep = args.iter().any(|a| a == "--deep");
    let exe = std::env::current_exe().unwrap();
    let mut out = BufWriter::new(File::create(out_path).unwrap());
    // nesting levels per shape: from shallow to the deepest text serde accepts, and just beyond (parse error)
    let level_set: Vec<usize> = if deep { vec![1, 2, 8, 16, 31, 32, 40, 60, 61, 62, 63, 64, 65, 100, 120, 125, 126, 127, 128, 129, 200] } else { vec![2, 16, 42, 62, 63, 64, 126, 127, 128, 129] };
    let stacks: Vec<usize> = vec![8 << 20, 2 << 20];
    let (mut n, mut fine, mut crashed) = (0u64, 0u64, 0u64);
    let mut hangs = 0u64;
    let mut classes = std::collections::BTreeMap::new();
    let mut samples = Vec::new();
    for shape in SHAPES {
        for &lv in &level_set {
            for &st in &stacks {
                if hangs >= 5 {
                    continue; // a systematic hang was already reported: do not spend the time budget on it
                }
                let mut child = Command::new(&exe).args(&["nest-child", shape, &lv.to_string(), &st.to_string()]).stdout(Stdio::piped()).stderr(Stdio::piped()).spawn().unwrap_or_else(|e| die(&format!("{}", e)));
                let t0 = std::time::Instant::now();
                let mut timed_out = false;
                loop {
                    match child.try_wait() {
                        Ok(Some(_)) => break,
                        Ok(None) => {
                            if t0.elapsed() > std::time::Duration::from_secs(20) {
                                let _ = child.kill();
                                timed_out = true;
                                break;
                            }
                            std::thread::sleep(std::time::Duration::from_millis(2));
                        }
                        Err(_) => break,
                    }
                }
                let p = child.wait_with_output().unwrap_or_else(|e| die(&format!("{}", e)));
                if timed_out {
                    n += 1;
                    hangs += 1;
                    crashed += 1;
                    let (rt, _dt) = build(shape, lv);
                    writeln!(out, "{}", json!({"kind": "hang", "why": format!("no result within 20 s evaluating shape {} with {} levels ({} bytes of rule text)", shape, lv, rt.len()),
                        "sc": ["C01"], "rule": if rt.len() > 300 { format!("{}... (shape {}, {} levels)", &rt[..120], shape, lv) } else { rt }, "data": "",
                        "expected": "a value or an error", "actual": "hang", "profile": crate::profile_name()})).unwrap();
                    continue;
                }
                n += 1;
                let so = String::from_utf8_lossy(&p.stdout).to_string();
                let res = so.lines().filter(|l| l.starts_with("RESULT ")).last().map(|l| l[7..].to_string());
                let good = p.status.code() == Some(0) && res.as_ref().map(|r| r == "parse-err" || r == "err" || r.starts_with("ok")).unwrap_or(false);
                if good {
                    fine += 1;
                    let r = res.unwrap();
                    let cls = r.split(' ').next().unwrap().to_string();
                    *classes.entry(cls).or_insert(0u64) += 1;
                    if samples.len() < 4 && lv >= 60 && r.starts_with("ok") {
                        samples.push(json!({"shape": shape, "levels": lv, "stack": st, "result": r}));
                    }
                } else {
                    crashed += 1;
                    let (rt, dt) = build(shape, lv);
                    writeln!(out, "{}", json!({"kind": "crash", "why": format!("child process died evaluating shape {} with {} levels on a {} MiB stack: status {:?}, {}", shape, lv, st >> 20, p.status, String::from_utf8_lossy(&p.stderr).lines().last().unwrap_or("")),
                        "sc": ["C01"], "rule": if rt.len() > 300 { format!("{}... ({} bytes; shape {}, {} levels)", &rt[..120], rt.len(), shape, lv) } else { rt },
                        "data": if dt.len() > 200 { format!("{}... ({} bytes)", &dt[..80], dt.len()) } else { dt },
                        "expected": "a value or an error", "actual": format!("{:?}", p.status), "profile": crate::profile_name()})).unwrap();
                }
            }
        }
    }
    writeln!(out, "{}", json!({"summary": true, "cases": n, "matched": fine, "mismatched": 0, "crashed": crashed, "hung": 0, "classes": classes, "samples": samples, "profile": crate::profile_name()})).unwrap();
}
