//! SplitMix64: self-contained seeded generator (no dependency on rand crates).
pub struct Rng(pub u64);
impl Rng {
    pub fn new(seed: u64) -> Self {
        Rng(seed ^ 0x9E3779B97F4A7C15)
    }
    pub fn next(&mut self) -> u64 {
        self.0 = self.0.wrapping_add(0x9E3779B97F4A7C15);
        let mut z = self.0;
        z = (z ^ (z >> 30)).wrapping_mul(0xBF58476D1CE4E5B9);
        z = (z ^ (z >> 27)).wrapping_mul(0x94D049BB133111EB);
        z ^ (z >> 31)
    }
    pub fn below(&mut self, n: usize) -> usize {
        (self.next() % (n as u64)) as usize
    }
    pub fn chance(&mut self, num: u64, den: u64) -> bool {
        self.next() % den < num
    }
    pub fn pick<'a, T>(&mut self, xs: &'a [T]) -> &'a T {
        &xs[self.below(xs.len())]
    }
}
