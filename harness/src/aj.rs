//! "AJ" (abstract JSON): the wire encoding shared by the TLA+ specification and
//! this harness. Only small integers, booleans, short ASCII tags, arrays and
//! records occur, because TLC's Json module cannot read `null`, truncates
//! floats and wraps integers above 2^31.
//!
//! | JSON   | AJ                                                            |
//! |--------|---------------------------------------------------------------|
//! | null   | {"t":"z"}                                                     |
//! | bool   | {"t":"b","v":true}                                            |
//! | string | {"t":"s","v":[code points]}                                   |
//! | array  | {"t":"a","v":[...]}                                           |
//! | object | {"t":"o","v":[[key code points, value],...]} sorted by key    |
//! | number | {"t":"n","k":"i"|"f","s":0|1,"m":[limbs base 2^15 LE],"e":exp2,"x":[ASCII text]} |
//!
//! k="i": integer-spelled serde number, exact magnitude in m, e=0.
//! k="f": float-spelled, value = (-1)^s * m * 2^e with m in [2^52,2^53) or e=-1074; zero is m=[], e=0.
//! x is the number's JSON text as the library's serialiser prints it; [-1] = unknown (spec-computed).

use serde_json::{json, Map, Number, Value};

pub const LIMB_BITS: u32 = 15;

pub fn limbs_of(mut n: u64) -> Vec<u64> {
    let mut v = Vec::new();
    while n > 0 {
        v.push(n & ((1 << LIMB_BITS) - 1));
        n >>= LIMB_BITS;
    }
    v
}

pub fn cps(s: &str) -> Value {
    Value::Array(s.chars().map(|c| json!(c as u32)).collect())
}

/// canonical (sign, mantissa, exp2) of a finite f64
pub fn decompose(f: f64) -> (u64, u64, i64) {
    let bits = f.to_bits();
    let s = bits >> 63;
    let e = ((bits >> 52) & 0x7ff) as i64;
    let frac = bits & ((1u64 << 52) - 1);
    if e == 0 {
        if frac == 0 {
            (s, 0, 0)
        } else {
            (s, frac, -1074)
        }
    } else {
        (s, frac | (1u64 << 52), e - 1075)
    }
}

pub fn compose(s: u64, m: u64, e: i64) -> f64 {
    if m == 0 {
        return if s == 1 { -0.0 } else { 0.0 };
    }
    let mut v = m as f64; // exact for m < 2^53
    let mut e = e;
    while e > 0 {
        let c = e.min(900);
        v *= 2f64.powi(c as i32);
        e -= c;
    }
    while e < 0 {
        let c = (-e).min(900);
        v *= 2f64.powi(-(c as i32));
        e += c;
    }
    if s == 1 {
        -v
    } else {
        v
    }
}

/// The canonical text of a number: what the default serialiser prints for the VALUE (integers as integers,
/// doubles in shortest round-trip form), whatever spelling the crate under test's serde_json may have kept.
pub fn canonical_text(n: &Number) -> String {
    match classify(n) {
        Num::U(u) => u.to_string(),
        Num::I(i) => i.to_string(),
        Num::F(f) => Number::from_f64(f).map(|c| c.to_string()).unwrap_or_else(|| n.to_string()),
    }
}

pub enum Num {
    U(u64),
    I(i64),
    F(f64),
}

/// The value of a number the way the default serde_json classifies it: non-negative integer, negative integer,
/// double ("-0" is the double -0.0).  Independent of whether the crate under test makes serde_json keep spellings.
pub fn classify(n: &Number) -> Num {
    if let Some(u) = n.as_u64() {
        Num::U(u)
    } else if let Some(i) = n.as_i64() {
        if i == 0 {
            Num::F(-0.0)
        } else {
            Num::I(i)
        }
    } else {
        // (a spelling beyond the double range can only exist when serde_json keeps spellings: not a JSON number here)
        Num::F(n.as_f64().filter(|f| f.is_finite()).unwrap_or(0.0))
    }
}

pub fn num_to_aj(n: &Number) -> Value {
    let text = canonical_text(n);
    match classify(n) {
        Num::U(u) => json!({"t":"n","k":"i","s":0,"m":limbs_of(u),"e":0,"x":cps(&text)}),
        Num::I(i) => json!({"t":"n","k":"i","s":1,"m":limbs_of(i.unsigned_abs()),"e":0,"x":cps(&text)}),
        Num::F(f) => {
            let (s, m, e) = decompose(f);
            json!({"t":"n","k":"f","s":s,"m":limbs_of(m),"e":e,"x":cps(&text)})
        }
    }
}

pub fn to_aj(v: &Value) -> Value {
    match v {
        Value::Null => json!({"t":"z"}),
        Value::Bool(b) => json!({"t":"b","v":b}),
        Value::String(s) => json!({"t":"s","v":cps(s)}),
        Value::Array(a) => json!({"t":"a","v":a.iter().map(to_aj).collect::<Vec<_>>()}),
        Value::Object(o) => {
            // members sorted by key in byte order = code point order (what serde_json's default BTreeMap gives
            // anyway; explicit so that the wire form does not depend on how the crate under test configures serde_json)
            let mut members: Vec<(&String, &Value)> = o.iter().collect();
            members.sort_by(|a, b| a.0.cmp(b.0));
            let kv: Vec<Value> = members.into_iter().map(|(k, v)| json!([cps(k), to_aj(v)])).collect();
            json!({"t":"o","v":kv})
        }
        Value::Number(n) => num_to_aj(n),
    }
}

fn str_of_cps(v: &Value) -> Result<String, String> {
    let arr = v.as_array().ok_or("code points: not an array")?;
    let mut s = String::new();
    for c in arr {
        let c = c.as_u64().ok_or("code point: not a small nat")?;
        s.push(std::char::from_u32(c as u32).ok_or("invalid code point")?);
    }
    Ok(s)
}

fn limbs_to_u128(v: &Value) -> Result<u128, String> {
    let arr = v.as_array().ok_or("limbs: not an array")?;
    let mut n: u128 = 0;
    if arr.len() > 8 {
        return Err("too many limbs".into());
    }
    for (i, l) in arr.iter().enumerate() {
        let l = l.as_u64().ok_or("limb: not nat")?;
        n |= (l as u128) << (LIMB_BITS as usize * i);
    }
    Ok(n)
}

/// Decode AJ into a serde value. `check_text`: verify the annotated serialiser text.
pub fn from_aj(v: &Value) -> Result<Value, String> {
    let t = v.get("t").and_then(|t| t.as_str()).ok_or_else(|| format!("no tag in {}", v))?;
    match t {
        "z" => Ok(Value::Null),
        "b" => Ok(Value::Bool(v["v"].as_bool().ok_or("bool")?)),
        "s" => Ok(Value::String(str_of_cps(&v["v"])?)),
        "a" => {
            let arr = v["v"].as_array().ok_or("array v")?;
            Ok(Value::Array(arr.iter().map(from_aj).collect::<Result<Vec<_>, _>>()?))
        }
        "o" => {
            let arr = v["v"].as_array().ok_or("object v")?;
            let mut m = Map::new();
            for kv in arr {
                let k = str_of_cps(&kv[0])?;
                m.insert(k, from_aj(&kv[1])?);
            }
            if m.len() != arr.len() {
                return Err("duplicate object keys in AJ".into());
            }
            Ok(Value::Object(m))
        }
        "n" => {
            let k = v["k"].as_str().ok_or("num k")?;
            let s = v["s"].as_u64().ok_or("num s")?;
            let m = limbs_to_u128(&v["m"])?;
            let e = v["e"].as_i64().ok_or("num e")?;
            let n = match k {
                "i" => {
                    if e != 0 {
                        return Err("int with e != 0".into());
                    }
                    if s == 0 {
                        if m > u64::MAX as u128 {
                            return Err("int too large".into());
                        }
                        Number::from(m as u64)
                    } else {
                        if m > (1u128 << 63) {
                            return Err("neg int too large".into());
                        }
                        if m == 0 {
                            return Err("negative integer zero".into());
                        }
                        Number::from((-(m as i128)) as i64)
                    }
                }
                "f" => {
                    if m >= (1u128 << 53) {
                        return Err("float mantissa too large".into());
                    }
                    let f = compose(s, m as u64, e);
                    if decompose(f) != (s, m as u64, if m == 0 { 0 } else { e }) {
                        return Err(format!("float not canonical/representable: s={} m={} e={}", s, m, e));
                    }
                    Number::from_f64(f).ok_or("non-finite float")?
                }
                _ => return Err("num k tag".into()),
            };
            if let Some(x) = v.get("x") {
                let xa = x.as_array().ok_or("x")?;
                if !(xa.len() == 1 && xa[0].as_i64() == Some(-1)) {
                    let txt = str_of_cps(x)?;
                    if txt != canonical_text(&n) {
                        return Err(format!("number text annotation {:?} != serialiser {:?}", txt, canonical_text(&n)));
                    }
                }
            }
            Ok(Value::Number(n))
        }
        _ => Err(format!("unknown tag {}", t)),
    }
}

/// Is this AJ number zero?
fn is_zero_num(v: &Value) -> bool {
    v["t"] == "n" && v["m"].as_array().map(|a| a.is_empty()).unwrap_or(false)
}

fn x_unknown(v: &Value) -> bool {
    v.get("x").and_then(|x| x.as_array()).map(|a| a.len() == 1 && a[0].as_i64() == Some(-1)).unwrap_or(true)
}

/// Compare expected AJ (from the specification) with actual AJ (projected from the code).
/// `zlax`: a zero result may be spelled 0, 0.0 or -0.0.
pub fn same(exp: &Value, act: &Value, zlax: bool) -> bool {
    let te = exp["t"].as_str().unwrap_or("?");
    let ta = act["t"].as_str().unwrap_or("!");
    if te != ta {
        return false;
    }
    match te {
        "z" => true,
        "b" | "s" => exp["v"] == act["v"],
        "n" => {
            if is_zero_num(exp) && is_zero_num(act) && zlax {
                return true;
            }
            exp["k"] == act["k"]
                && exp["s"] == act["s"]
                && exp["m"] == act["m"]
                && exp["e"] == act["e"]
                && (x_unknown(exp) || exp["x"] == act["x"])
        }
        "a" => {
            let (a, b) = (exp["v"].as_array().unwrap(), act["v"].as_array().unwrap());
            a.len() == b.len() && a.iter().zip(b).all(|(x, y)| same(x, y, zlax))
        }
        "o" => {
            let (a, b) = (exp["v"].as_array().unwrap(), act["v"].as_array().unwrap());
            // an object is a set of members: the order in which either side lists them is irrelevant
            a.len() == b.len() && a.iter().all(|x| b.iter().any(|y| x[0] == y[0] && same(&x[1], &y[1], zlax)))
        }
        _ => false,
    }
}

/// The same value with the members of every object inserted in the opposite order (a different value only when
/// the crate under test builds serde_json with an order-preserving map).
pub fn reverse_members(v: &Value) -> Value {
    match v {
        Value::Array(a) => Value::Array(a.iter().map(reverse_members).collect()),
        Value::Object(o) => {
            let mut m = serde_json::Map::new();
            let members: Vec<(&String, &Value)> = o.iter().collect();
            for (k, x) in members.into_iter().rev() {
                m.insert(k.clone(), reverse_members(x));
            }
            Value::Object(m)
        }
        _ => v.clone(),
    }
}

/// The same value read from a text in which every non-integral number is spelled with a redundant trailing zero
/// (1.5 -> 1.50, 1e21 -> 1.0e21).  With the default serde_json this is the identical value (None is returned);
/// it differs only when the crate under test makes serde_json keep spellings.
pub fn respelled(v: &Value) -> Option<Value> {
    fn write(v: &Value, out: &mut String) {
        match v {
            Value::Number(n) if matches!(classify(n), Num::F(_)) => {
                let t = canonical_text(n);
                match (t.find('e'), t.find('.')) {
                    (None, Some(_)) => { out.push_str(&t); out.push('0'); }
                    (Some(i), Some(_)) => { out.push_str(&t[..i]); out.push('0'); out.push_str(&t[i..]); }
                    (Some(i), None) => { out.push_str(&t[..i]); out.push_str(".0"); out.push_str(&t[i..]); }
                    (None, None) => out.push_str(&t),
                }
            }
            Value::Array(a) => {
                out.push('[');
                for (i, x) in a.iter().enumerate() {
                    if i > 0 { out.push(','); }
                    write(x, out);
                }
                out.push(']');
            }
            Value::Object(o) => {
                out.push('{');
                for (i, (k, x)) in o.iter().enumerate() {
                    if i > 0 { out.push(','); }
                    out.push_str(&Value::String(k.clone()).to_string());
                    out.push(':');
                    write(x, out);
                }
                out.push('}');
            }
            other => out.push_str(&other.to_string()),
        }
    }
    // only when this build of serde_json keeps spellings (otherwise a re-read could only differ by the last-digit
    // inaccuracy of serde_json's own float parser, which is not the crate's doing)
    let keeps = serde_json::from_str::<Value>("1.50").map(|x| x.to_string() == "1.50").unwrap_or(false);
    if !keeps {
        return None;
    }
    let mut text = String::new();
    write(v, &mut text);
    match serde_json::from_str::<Value>(&text) {
        Ok(w) if w != *v => Some(w),
        _ => None,
    }
}

/// Like reverse_members, but only every other object with two or more members (in traversal order) is reversed,
/// so that two objects written in the same order end up in different orders.
pub fn reverse_members_alternating(v: &Value) -> Value {
    fn go(v: &Value, n: &mut usize) -> Value {
        match v {
            Value::Array(a) => Value::Array(a.iter().map(|x| go(x, n)).collect()),
            Value::Object(o) => {
                let flip = if o.len() > 1 {
                    *n += 1;
                    *n % 2 == 1
                } else {
                    false
                };
                let mut members: Vec<(&String, &Value)> = o.iter().collect();
                if flip {
                    members.reverse();
                }
                let mut m = serde_json::Map::new();
                for (k, x) in members {
                    m.insert(k.clone(), go(x, n));
                }
                Value::Object(m)
            }
            _ => v.clone(),
        }
    }
    let mut n = 0usize;
    go(v, &mut n)
}

/// Does this build of serde_json keep the member order of the document (feature preserve_order of the crate under test)?
pub fn preserves_order() -> bool {
    serde_json::from_str::<Value>("{\"b\":1,\"a\":2}").map(|v| v.to_string().starts_with("{\"b\"")).unwrap_or(false)
}

/// Does the value contain an object with two or more members?
pub fn has_multi(v: &Value) -> bool {
    match v {
        Value::Array(a) => a.iter().any(has_multi),
        Value::Object(o) => o.len() > 1 || o.values().any(has_multi),
        _ => false,
    }
}

pub fn selftest() -> Result<(), String> {
    let texts = [
        "null", "true", "false", "0", "-0.0", "0.0", "1", "-1", "1.5", "1e0", "1E2", "-0", "5e-324", "1.7976931348623157e308",
        "9007199254740993", "9223372036854775807", "-9223372036854775808", "18446744073709551615", "1e20", "1e-7", "0.1",
        "\"\"", "\"h\\u00e9llo\\ud83d\\ude00\"", "[]", "[1,[2,{\"a\":null}]]", "{}", "{\"b\":1,\"a\":{\"\":[]}}", "2.2250738585072014e-308", "4.9406564584124654e-324", "123456789012345680000",
    ];
    for t in texts.iter() {
        let v: Value = serde_json::from_str(t).map_err(|e| format!("{}: {}", t, e))?;
        let a = to_aj(&v);
        let back = from_aj(&a).map_err(|e| format!("{}: {}", t, e))?;
        // same value and same number spellings (the wire form carries the text); member order is canonical
        if to_aj(&back) != a {
            return Err(format!("AJ round trip failed for {}: {} vs {}", t, back, v));
        }
        if !same(&a, &to_aj(&back), false) {
            return Err(format!("AJ same() failed for {}", t));
        }
    }
    // serialiser facts the corpus annotations rely on
    let facts = [("1e15", "1000000000000000.0"), ("1e-5", "0.00001"), ("100.0", "100.0"), ("-0.0", "-0.0"), ("1e0", "1.0"), ("1E2", "100.0"), ("10000000000000000000", "10000000000000000000")];
    for (t, x) in facts.iter() {
        let v: Value = serde_json::from_str(t).unwrap();
        let got = match &v {
            Value::Number(n) => canonical_text(n),
            other => other.to_string(),
        };
        if got != *x {
            return Err(format!("serialiser fact changed: {} prints as {} (expected {})", t, got, x));
        }
    }
    Ok(())
}
