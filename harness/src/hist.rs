//! C17: execute TLC-exported histories on real threads over SHARED inputs.
//! history line: {"pool":[{"rule":AJ,"data":AJ}...], "threads":[[pool index (1-based)...]...], "exp":[{ok,v,log} per pool entry]}

use crate::{aj, run};
use crate::rng::Rng;
use serde_json::{json, Value};
use std::fs::File;
use std::io::{BufRead, BufReader, BufWriter, Write};
use std::sync::{Arc, Barrier};

fn die(msg: &str) -> ! {
    eprintln!("TOOL-ERROR: {}", msg);
    std::process::exit(2);
}

struct Obs {
    thread: usize,
    pos: usize,
    idx: usize,
    outcome: run::Outcome,
}

fn run_threads(pool: &Arc<Vec<(Value, Value)>>, programs: &[Vec<usize>], seed: u64, fresh: bool) -> Vec<Obs> {
    let n = programs.len();
    let barrier = Arc::new(Barrier::new(n));
    let mut handles = Vec::new();
    for (t, prog) in programs.iter().enumerate() {
        let pool = pool.clone();
        let prog = prog.clone();
        let barrier = barrier.clone();
        handles.push(std::thread::Builder::new().stack_size(16 << 20).spawn(move || {
            let mut rng = Rng::new(seed.wrapping_mul(31).wrapping_add(t as u64));
            let mut obs = Vec::new();
            barrier.wait();
            for (pos, &idx) in prog.iter().enumerate() {
                // stagger: a seed-dependent amount of spinning / yielding before each call
                let spins = rng.below(2000);
                for _ in 0..spins {
                    std::hint::spin_loop();
                }
                if rng.chance(1, 3) {
                    std::thread::yield_now();
                }
                let outcome = if fresh {
                    // fresh copies of the inputs, allocated just before the call and dropped right after it, so
                    // that consecutive calls see equal-shaped values at recycled addresses
                    let rule = pool[idx - 1].0.clone();
                    let data = pool[idx - 1].1.clone();
                    run::run_apply(&rule, &data)
                } else {
                    let (rule, data) = &pool[idx - 1];
                    run::run_apply(rule, data)
                };
                obs.push(Obs { thread: t, pos, idx, outcome });
            }
            obs
        }).unwrap());
    }
    let mut all = Vec::new();
    for h in handles {
        all.extend(h.join().unwrap_or_else(|_| die("history thread panicked outside apply")));
    }
    all
}

pub fn cmd_hist(args: &[String]) {
    let path = &args[0];
    let out_path = &args[1];
    let events_path = args.iter().position(|a| a == "--events").map(|i| args[i + 1].clone());
    let seed: u64 = args.iter().position(|a| a == "--seed").map(|i| args[i + 1].parse().unwrap()).unwrap_or(0);
    let reps: usize = args.iter().position(|a| a == "--reps").map(|i| args[i + 1].parse().unwrap()).unwrap_or(5);
    run::silence_panics();
    let f = File::open(path).unwrap_or_else(|e| die(&format!("{}: {}", path, e)));
    let mut out = BufWriter::new(File::create(out_path).unwrap());
    let mut evw = events_path.map(|p| BufWriter::new(File::create(p).unwrap()));
    let (mut histories, mut calls, mut agree, mut bad) = (0u64, 0u64, 0u64, 0u64);
    let mut expected_lines: u64 = 0;
    let mut exp_line_texts: Vec<String> = Vec::new();
    let mut samples: Vec<Value> = Vec::new();
    for (ln, line) in BufReader::new(f).lines().enumerate() {
        let line = line.unwrap();
        if line.trim().is_empty() {
            continue;
        }
        let h: Value = serde_json::from_str(&line).unwrap_or_else(|e| die(&format!("{} line {}: {}", path, ln + 1, e)));
        let pool_aj = h["pool"].as_array().unwrap_or_else(|| die("pool"));
        let pool: Vec<(Value, Value)> = pool_aj
            .iter()
            .map(|p| {
                // a rule too deep for the AJ wire format comes as JSON text (parsed with the default recursion limit)
                let rule = match p.get("rule_text").and_then(|t| t.as_str()) {
                    Some(t) if !t.is_empty() => serde_json::from_str(t).unwrap_or_else(|e| die(&format!("rule_text: {}", e))),
                    _ => aj::from_aj(&p["rule"]).unwrap_or_else(|e| die(&e)),
                };
                (rule, aj::from_aj(&p["data"]).unwrap_or_else(|e| die(&e)))
            })
            .collect();
        let before: Vec<(String, String)> = pool.iter().map(|(r, d)| (r.to_string(), d.to_string())).collect();
        let pool = Arc::new(pool);
        let programs: Vec<Vec<usize>> = h["threads"].as_array().unwrap().iter().map(|p| p.as_array().unwrap().iter().map(|i| i.as_u64().unwrap() as usize).collect()).collect();
        let exp = h["exp"].as_array().unwrap();
        histories += 1;
        // concurrent rounds with different staggering, then one sequential pass and one reversed pass
        let mut rounds: Vec<(String, Vec<Vec<usize>>)> = Vec::new();
        for r in 0..reps {
            rounds.push((format!("threads#{}", r), programs.clone()));
        }
        let flat: Vec<usize> = programs.iter().flatten().cloned().collect();
        let mut rev = flat.clone();
        rev.reverse();
        rounds.push(("sequential".into(), vec![flat.clone()]));
        rounds.push(("reversed".into(), vec![rev]));
        rounds.push(("sequential-fresh".into(), vec![flat]));
        rounds.push(("threads-fresh".into(), programs.clone()));
        for (ri, (rname, progs)) in rounds.iter().enumerate() {
            let obs = run_threads(&pool, progs, seed.wrapping_add(ln as u64 * 1000 + ri as u64), rname.ends_with("fresh"));
            for o in obs.iter() {
                calls += 1;
                let e = &exp[o.idx - 1];
                expected_lines += e["log"].as_array().map(|a| a.len()).unwrap_or(0) as u64;
                for lv in e["log"].as_array().map(|a| a.to_vec()).unwrap_or_default() {
                    exp_line_texts.push(aj::from_aj(&lv).map(|v| v.to_string()).unwrap_or_else(|er| die(&er)));
                }
                match run::compare(e, &o.outcome, true, false) {
                    None => {
                        agree += 1;
                        if samples.len() < 3 && ri == 0 {
                            samples.push(json!({"history": ln + 1, "round": rname, "thread": o.thread + 1, "call": o.pos + 1,
                                "rule": pool[o.idx - 1].0.to_string(), "data": pool[o.idx - 1].1.to_string(), "outcome": run::outcome_plain(&o.outcome)}));
                        }
                    }
                    Some(why) => {
                        bad += 1;
                        writeln!(out, "{}", json!({"kind": if o.outcome.crash.is_some() {"crash"} else {"mismatch"}, "why": format!("{} (history {}, round {}, thread {}, call {})", why, ln + 1, rname, o.thread + 1, o.pos + 1),
                            "sc": ["C17"], "rule": pool[o.idx - 1].0.to_string(), "data": pool[o.idx - 1].1.to_string(),
                            "expected": e.clone(), "actual": run::outcome_plain(&o.outcome), "profile": "debug",
                            "history": {"threads": progs, "round": rname},
                            "case": {"rule": pool_aj[o.idx - 1]["rule"].clone(), "data": pool_aj[o.idx - 1]["data"].clone(), "exp": e.clone(), "fl": {"zlax": true, "logseq": false}}})).unwrap();
                    }
                }
            }
            // per-thread event streams of the first concurrent round go to the trace validator
            if ri == 0 {
                if let Some(w) = evw.as_mut() {
                    for t in 0..progs.len() {
                        // calls on rules that are too deep for the wire format are not traced
                        for o in obs.iter().filter(|o| o.thread == t && pool_aj[o.idx - 1].get("rule_text").and_then(|x| x.as_str()).map(|x| x.is_empty()).unwrap_or(true)) {
                            for e in run::events_aj(&o.outcome.events) {
                                writeln!(w, "{}", e).unwrap();
                            }
                        }
                    }
                }
            }
        }
        // the shared inputs must be exactly what they were (value and spelling)
        for (i, (r, d)) in pool.iter().enumerate() {
            if r.to_string() != before[i].0 || d.to_string() != before[i].1 {
                bad += 1;
                writeln!(out, "{}", json!({"kind": "mismatch", "why": format!("shared input {} was modified (history {})", i + 1, ln + 1), "sc": ["C17"],
                    "rule": before[i].0, "data": before[i].1, "expected": "inputs unchanged", "actual": format!("{} / {}", r, d), "profile": "debug"})).unwrap();
            }
        }
    }
    writeln!(out, "{}", json!({"summary": true, "histories": histories, "cases": calls, "matched": agree, "mismatched": bad, "crashed": 0, "hung": 0,
        "expected_log_lines": expected_lines, "samples": samples, "profile": "debug"})).unwrap();
    // the exact texts of the expected stdout lines (one per evaluated log), for the orchestrator's multiset comparison
    if let Some(i) = args.iter().position(|a| a == "--lines") {
        let mut w = BufWriter::new(File::create(&args[i + 1]).unwrap());
        for t in exp_line_texts {
            writeln!(w, "{}", t).unwrap();
        }
    }
}
