//! Run one (rule, data) call against the real interpreter, with hooks on,
//! under catch_unwind, and project the outcome.

use crate::aj;
use jsonlogic_rs::verif::{self, Event};
use serde_json::{json, Value};
use std::panic;

#[derive(Debug, Clone)]
pub struct Outcome {
    pub ok: bool,
    pub v: Value,
    pub log: Vec<Value>,
    pub events: Vec<Event>,
    pub crash: Option<String>,
}

pub fn silence_panics() {
    panic::set_hook(Box::new(|_| {}));
}

pub fn run_apply(rule: &Value, data: &Value) -> Outcome {
    verif::set_enabled(true);
    let _ = verif::take_events();
    // an error is a VALUE: rendering it (Display and Debug, what the CLI, the Python module and any caller do
    // with it) belongs to the call, so a panic while rendering is a crash of the call
    let res = panic::catch_unwind(|| {
        jsonlogic_rs::apply(rule, data).map_err(|e| {
            let _ = format!("{}", e);
            format!("{:?}", e)
        })
    });
    let events = verif::take_events();
    let log: Vec<Value> = events
        .iter()
        .filter_map(|e| match e {
            Event::Log { value } => Some(value.clone()),
            _ => None,
        })
        .collect();
    match res {
        Ok(Ok(v)) => Outcome { ok: true, v, log, events, crash: None },
        // an error carries the name of its variant of the public error enumeration (first identifier of its Debug form)
        Ok(Err(dbg)) => {
            let name: String = dbg.chars().take_while(|c| c.is_ascii_alphanumeric() || *c == '_').collect();
            Outcome { ok: false, v: Value::String(name), log, events, crash: None }
        }
        Err(p) => {
            let msg = if let Some(s) = p.downcast_ref::<&str>() {
                s.to_string()
            } else if let Some(s) = p.downcast_ref::<String>() {
                s.clone()
            } else {
                "panic".to_string()
            };
            Outcome { ok: false, v: Value::Null, log, events, crash: Some(format!("panic: {}", msg)) }
        }
    }
}

pub fn outcome_aj(o: &Outcome) -> Value {
    if let Some(c) = &o.crash {
        return json!({"crash": c, "log": o.log.iter().map(aj::to_aj).collect::<Vec<_>>()});
    }
    if o.ok {
        json!({"ok": true, "v": aj::to_aj(&o.v), "log": o.log.iter().map(aj::to_aj).collect::<Vec<_>>()})
    } else {
        // v: the name of the error's variant (a string), null when unknown
        json!({"ok": false, "v": aj::to_aj(&o.v), "log": o.log.iter().map(aj::to_aj).collect::<Vec<_>>()})
    }
}

pub fn outcome_plain(o: &Outcome) -> Value {
    if let Some(c) = &o.crash {
        return json!({"crash": c});
    }
    if o.ok {
        json!({"ok": true, "v": o.v.to_string(), "log": o.log.iter().map(|v| v.to_string()).collect::<Vec<_>>()})
    } else {
        json!({"ok": false, "log": o.log.iter().map(|v| v.to_string()).collect::<Vec<_>>()})
    }
}

/// Events of one call in the wire form read by the trace specification.
pub fn events_aj(evs: &[Event]) -> Vec<Value> {
    evs.iter()
        .map(|e| match e {
            Event::Call { rule, data } => json!({"ev":"call","rule":aj::to_aj(rule),"data":aj::to_aj(data)}),
            Event::Enter { kind, symbol, depth } => json!({"ev":"enter","kind":kind,"sym":aj::cps(symbol),"depth":depth}),
            Event::Log { value } => json!({"ev":"log","value":aj::to_aj(value)}),
            Event::Ret { ok, value } => json!({"ev":"ret","ok":ok,"v":value.as_ref().map(aj::to_aj).unwrap_or(json!({"t":"z"}))}),
        })
        .collect()
}

/// Compare an expected outcome (AJ, from the spec) with an actual outcome.
/// Returns None when they agree, else a short reason.
/// The variant of the error enumeration named by the specification (when it names one) against the actual one.
/// No property statement pins the variant: a difference is reported as drift between specification and code.
pub fn variant_drift(exp: &Value, act: &Outcome) -> Option<String> {
    if act.crash.is_some() || act.ok || exp["ok"].as_bool().unwrap_or(true) {
        return None;
    }
    let want = match aj::from_aj(&exp["v"]) {
        Ok(Value::String(s)) => s,
        _ => return None,
    };
    match &act.v {
        Value::String(got) if *got != want => Some(format!("error variant differs: specification {} code {}", want, got)),
        _ => None,
    }
}

pub fn compare(exp: &Value, act: &Outcome, zlax: bool, logseq: bool) -> Option<String> {
    if let Some(c) = &act.crash {
        return Some(format!("crash: {}", c));
    }
    let eok = exp["ok"].as_bool().unwrap_or(false);
    if eok != act.ok {
        return Some(format!("expected {} got {}", if eok { "Ok" } else { "Err" }, if act.ok { "Ok" } else { "Err" }));
    }
    if eok && !aj::same(&exp["v"], &aj::to_aj(&act.v), zlax) {
        return Some("value differs".into());
    }
    // log lines: for an Err outcome the spec's log is the prefix emitted before the failure
    // in left-to-right order; eager operand order is not pinned, so on Err only check when logseq.
    let elog: Vec<&Value> = exp["log"].as_array().map(|a| a.iter().collect()).unwrap_or_default();
    let alog: Vec<Value> = act.log.iter().map(aj::to_aj).collect();
    if logseq {
        if elog.len() != alog.len() || !elog.iter().zip(alog.iter()).all(|(e, a)| aj::same(e, a, zlax)) {
            return Some("log sequence differs".into());
        }
    } else if eok {
        if elog.len() != alog.len() {
            return Some("log count differs".into());
        }
        let mut used = vec![false; alog.len()];
        for e in elog.iter() {
            let mut found = false;
            for (i, a) in alog.iter().enumerate() {
                if !used[i] && aj::same(e, a, zlax) {
                    used[i] = true;
                    found = true;
                    break;
                }
            }
            if !found {
                return Some("log multiset differs".into());
            }
        }
    }
    None
}
