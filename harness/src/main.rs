mod aj;
mod run;
mod rng;
mod gen;
mod helpers;
mod cli;
mod hist;
mod nest;
mod convert;

use serde_json::{json, Value};
use std::fs::File;
use std::io::{BufRead, BufReader, BufWriter, Write};
use std::sync::mpsc;
use std::time::Duration;

fn die(msg: &str) -> ! {
    eprintln!("TOOL-ERROR: {}", msg);
    std::process::exit(2);
}

fn arg_opt(args: &[String], name: &str) -> Option<String> {
    args.iter().position(|a| a == name).and_then(|i| args.get(i + 1).cloned())
}

pub fn profile_name() -> &'static str {
    profile()
}

fn profile() -> &'static str {
    if cfg!(debug_assertions) {
        "debug"
    } else if (|| -> bool {
        // overflow checks on?  i32::MAX + 1 panics iff overflow-checks are enabled
        std::panic::catch_unwind(|| {
            let x = std::hint::black_box(i32::MAX);
            let _ = std::hint::black_box(x + 1);
        })
        .is_err()
    })() {
        "release+overflow-checks"
    } else {
        "release"
    }
}

/// corpus.json: {"NAME": [json values...], ...}  ->  <outdir>/NAME.ndjson (one AJ value per line)
fn cmd_encode(args: &[String]) {
    let src = &args[0];
    let outdir = &args[1];
    let text = std::fs::read_to_string(src).unwrap_or_else(|e| die(&format!("{}: {}", src, e)));
    let v: Value = serde_json::from_str(&text).unwrap_or_else(|e| die(&format!("{}: {}", src, e)));
    let obj = v.as_object().unwrap_or_else(|| die("corpus must be an object"));
    std::fs::create_dir_all(outdir).ok();
    for (name, vals) in obj {
        let arr = vals.as_array().unwrap_or_else(|| die("corpus entry must be an array"));
        let mut w = BufWriter::new(File::create(format!("{}/{}.ndjson", outdir, name)).unwrap());
        for x in arr {
            let a = aj::to_aj(x);
            // round trip self check
            let back = aj::from_aj(&a).unwrap_or_else(|e| die(&e));
            if aj::to_aj(&back) != a {
                die(&format!("corpus round trip failed: {}", x));
            }
            writeln!(w, "{}", a).unwrap();
        }
    }
}

struct Case {
    idx: usize,
    raw: Value,
    rule: Value,
    data: Value,
    helper: Option<(String, Vec<Value>)>,
}

fn load_cases(path: &str) -> Vec<Case> {
    let f = File::open(path).unwrap_or_else(|e| die(&format!("{}: {}", path, e)));
    let mut out = Vec::new();
    for (idx, line) in BufReader::new(f).lines().enumerate() {
        let line = line.unwrap_or_else(|e| die(&format!("read {}: {}", path, e)));
        if line.trim().is_empty() {
            continue;
        }
        let raw: Value = serde_json::from_str(&line).unwrap_or_else(|e| die(&format!("{} line {}: torn or invalid JSON: {}", path, idx + 1, e)));
        let rule = aj::from_aj(&raw["rule"]).unwrap_or_else(|e| die(&format!("{} line {}: rule: {}", path, idx + 1, e)));
        let data = aj::from_aj(&raw["data"]).unwrap_or_else(|e| die(&format!("{} line {}: data: {}", path, idx + 1, e)));
        let helper = match raw.get("fn").and_then(|f| f.as_str()) {
            Some(f) => {
                let args = raw["args"].as_array().unwrap_or_else(|| die("helper case without args"));
                let vals: Vec<Value> = args.iter().map(|a| aj::from_aj(a).unwrap_or_else(|e| die(&format!("{} line {}: arg: {}", path, idx + 1, e)))).collect();
                Some((f.to_string(), vals))
            }
            None => None,
        };
        out.push(Case { idx, raw, rule, data, helper });
    }
    out
}

/// Direction A: replay TLC-exported cases into the real code and compare with the spec's expectation.
fn cmd_replay(args: &[String]) {
    let cases_path = &args[0];
    let out_path = &args[1];
    let events_path = arg_opt(args, "--events");
    let stack: usize = arg_opt(args, "--stack").map(|s| s.parse().unwrap()).unwrap_or(64 << 20);
    let timeout_ms: u64 = arg_opt(args, "--timeout").map(|s| s.parse().unwrap()).unwrap_or(20000);
    let nsamples: usize = arg_opt(args, "--samples").map(|s| s.parse().unwrap()).unwrap_or(3);
    run::silence_panics();
    let cases = std::sync::Arc::new(load_cases(cases_path));
    let mut out = BufWriter::new(File::create(out_path).unwrap());
    let mut evw = events_path.map(|p| BufWriter::new(File::create(p).unwrap()));
    let n = cases.len();
    let mut next = 0usize;
    let (mut matched, mut mismatched, mut crashed, mut hung) = (0u64, 0u64, 0u64, 0u64);
    let mut samples: Vec<Value> = Vec::new();
    while next < n {
        // worker thread runs cases from `next` on; the main thread is the watchdog
        let (tx, rx) = mpsc::channel::<(usize, run::Outcome)>();
        let cs = cases.clone();
        let start = next;
        std::thread::Builder::new()
            .stack_size(stack)
            .spawn(move || {
                for i in start..cs.len() {
                    let o = match &cs[i].helper {
                        Some((f, args)) => helpers::run_helper(f, args).unwrap_or_else(|e| die(&e)),
                        None => run::run_apply(&cs[i].rule, &cs[i].data),
                    };
                    if tx.send((i, o)).is_err() {
                        return;
                    }
                }
            })
            .unwrap();
        loop {
            match rx.recv_timeout(Duration::from_millis(timeout_ms)) {
                Ok((i, o)) => {
                    let c = &cases[i];
                    let fl = &c.raw["fl"];
                    let zlax = fl["zlax"].as_bool().unwrap_or(false);
                    let logseq = fl["logseq"].as_bool().unwrap_or(false);
                    let mut verdict = run::compare(&c.raw["exp"], &o, zlax, logseq);
                    let mut sc_override: Option<Value> = None;
                    let relonly = fl["relonly"].as_bool().unwrap_or(false);
                    if relonly && verdict.is_some() && o.crash.is_none() {
                        // only the relation between the two spellings is pinned: a disagreement with the
                        // specification's outcome is spec drift (empty scope), reported but not a violation
                        sc_override = Some(json!([]));
                    }
                    if fl["okonly"].as_bool().unwrap_or(false) && o.crash.is_none() {
                        if let Some(w) = &verdict {
                            if !w.starts_with("expected ") {
                                // acceptance agrees; the value is owned by another property's statement
                                sc_override = Some(match fl["own"].as_str() { Some(p) => json!([p]), None => json!([]) });
                            }
                        }
                    }
                    if verdict.is_none() {
                        if let Some(w) = run::variant_drift(&c.raw["exp"], &o) {
                            verdict = Some(w);
                            sc_override = Some(json!([]));
                        }
                    }
                    // relational case: a second spelling of the same rule must behave identically
                    if verdict.is_none() || sc_override.is_some() {
                        if let Some(r2) = c.raw.get("rule2") {
                            let rule2 = aj::from_aj(r2).unwrap_or_else(|e| die(&format!("rule2: {}", e)));
                            let o2 = run::run_apply(&rule2, &c.data);
                            let as_exp = run::outcome_aj(&o2);
                            if o2.crash.is_some() {
                                verdict = Some(format!("second spelling {} crashed", rule2));
                                sc_override = None;
                            } else if let Some(w) = run::compare(&as_exp, &o, false, true) {
                                verdict = Some(format!("two spellings differ ({}): second spelling {} gives {}", w, rule2, run::outcome_plain(&o2)));
                                sc_override = None;
                            }
                        }
                    }
                    // fl.noev: the call's hook events are not handed to the trace validator (very long literal
                    // operand lists: the machine's free operand order makes their validation exponential)
                    // the member order of objects is immaterial (C15 says so for `in`; no statement gives it a meaning
                    // anywhere else): the same call with every object's members in the opposite order must agree
                    // (only meaningful - and only run - when the crate under test makes serde_json keep the document's order)
                    if verdict.is_none() && c.helper.is_none() && aj::preserves_order() && (aj::has_multi(&c.rule) || aj::has_multi(&c.data)) {
                        let variants = [
                            (aj::reverse_members(&c.rule), aj::reverse_members(&c.data)),
                            (aj::reverse_members_alternating(&c.rule), aj::reverse_members_alternating(&c.data)),
                            (aj::reverse_members(&c.rule), c.data.clone()),
                        ];
                        for (r3, d3) in variants.iter() {
                            let o3 = run::run_apply(r3, d3);
                            if o3.crash.is_some() {
                                verdict = Some("the call crashed with the members of its objects in another order".to_string());
                                break;
                            } else if let Some(w) = run::compare(&run::outcome_aj(&o3), &o, false, false) {
                                verdict = Some(format!("the outcome depends on the member order of objects ({}): rule {} data {} gives {}", w, r3, d3, run::outcome_plain(&o3)));
                                break;
                            }
                        }
                    }
                    // a number is its value, not its spelling: when the crate's serde_json keeps spellings, the same call
                    // with every non-integral number spelled with a redundant zero must agree (no-op with the default build)
                    if verdict.is_none() && c.helper.is_none() {
                        {
                            let (r2, d2) = (aj::respelled(&c.rule), aj::respelled(&c.data));
                            if r2.is_some() || d2.is_some() {
                                let o4 = run::run_apply(r2.as_ref().unwrap_or(&c.rule), d2.as_ref().unwrap_or(&c.data));
                                if o4.crash.is_some() {
                                    verdict = Some("the call crashed with its numbers spelled with a redundant zero".to_string());
                                } else if o4.ok != o.ok || (o.ok && !aj::same(&aj::to_aj(&o.v), &aj::to_aj(&o4.v), true)) {
                                    verdict = Some(format!("the outcome depends on the SPELLING of a number (1.5 vs 1.50): respelled call gives {}", run::outcome_plain(&o4)));
                                }
                            }
                        }
                    }
                    // (a case whose outcome no statement pins - empty scope - is not handed to the trace validator either:
                    // the machine would pin through the event stream what the replay deliberately leaves open)
                    let open_case = c.raw.get("sc").and_then(|x| x.as_array()).map(|a| a.is_empty()).unwrap_or(false);
                    if let Some(w) = evw.as_mut().filter(|_| !fl["noev"].as_bool().unwrap_or(false) && !open_case) {
                        for e in run::events_aj(&o.events) {
                            writeln!(w, "{}", e).unwrap();
                        }
                    }
                    match verdict {
                        None => {
                            matched += 1;
                            if samples.len() < nsamples {
                                samples.push(json!({"rule": case_text(c), "data": c.data.to_string(), "outcome": run::outcome_plain(&o)}));
                            }
                        }
                        Some(why) => {
                            if o.crash.is_some() {
                                crashed += 1
                            } else {
                                mismatched += 1
                            }
                            let rec = json!({
                                "line": c.idx + 1, "id": c.raw.get("id").cloned().unwrap_or(Value::Null),
                                "kind": if o.crash.is_some() {"crash"} else {"mismatch"},
                                "why": why, "sc": sc_override.clone().unwrap_or_else(|| c.raw.get("sc").cloned().unwrap_or(json!([]))),
                                "rule": case_text(c), "data": c.data.to_string(),
                                "entry": if c.helper.is_some() {"helper"} else {"apply"},
                                "expected": plain_exp(&c.raw["exp"]), "actual": run::outcome_plain(&o),
                                "profile": profile(),
                                "case": c.raw.clone(),
                            });
                            writeln!(out, "{}", rec).unwrap();
                        }
                    }
                    next = i + 1;
                    if next >= n {
                        break;
                    }
                }
                Err(mpsc::RecvTimeoutError::Timeout) => {
                    let c = &cases[next];
                    hung += 1;
                    let rec = json!({"line": c.idx + 1, "kind": "hang", "why": format!("no result within {} ms", timeout_ms),
                        "sc": c.raw.get("sc").cloned().unwrap_or(json!([])),
                        "rule": c.rule.to_string(), "data": c.data.to_string(), "profile": profile(), "case": c.raw.clone()});
                    writeln!(out, "{}", rec).unwrap();
                    next += 1;
                    if hung >= 5 {
                        // stuck threads keep spinning: do not let a systematic hang eat the time budget
                        let rec = json!({"kind": "hang", "why": format!("replay stopped after {} hangs; {} cases not run", hung, n - next), "sc": ["C01"], "rule": "(remaining cases)", "data": "", "profile": profile()});
                        writeln!(out, "{}", rec).unwrap();
                        next = n;
                    }
                    break; // abandon the stuck worker, start a new one
                }
                Err(mpsc::RecvTimeoutError::Disconnected) => {
                    if next < n {
                        die("worker thread died without a result");
                    }
                    break;
                }
            }
        }
    }
    writeln!(out, "{}", json!({"summary": true, "profile": profile(), "cases": n, "matched": matched, "mismatched": mismatched, "crashed": crashed, "hung": hung, "samples": samples})).unwrap();
    out.flush().unwrap();
    if hung > 0 {
        std::process::exit(0); // stuck threads would block a normal return
    }
}

fn case_text(c: &Case) -> String {
    match &c.helper {
        Some((f, args)) => format!("js_op::{}({})", f, args.iter().map(|a| a.to_string()).collect::<Vec<_>>().join(", ")),
        None => c.rule.to_string(),
    }
}

fn plain_exp(exp: &Value) -> Value {
    let ok = exp["ok"].as_bool().unwrap_or(false);
    let log: Vec<String> = exp["log"].as_array().map(|a| a.iter().map(|x| aj_text(x)).collect()).unwrap_or_default();
    if ok {
        json!({"ok": true, "v": aj_text(&exp["v"]), "log": log})
    } else {
        json!({"ok": false, "log": log})
    }
}

/// best-effort plain text of an AJ value (spec-computed numbers may lack their text)
fn aj_text(v: &Value) -> String {
    match aj::from_aj(v) {
        Ok(x) => x.to_string(),
        Err(_) => format!("<AJ {}>", v),
    }
}

fn main() {
    let args: Vec<String> = std::env::args().skip(1).collect();
    if args.is_empty() {
        die("usage: jlverif <selftest|encode|replay|record|helpers|cli|...> ...");
    }
    let rest = &args[1..];
    match args[0].as_str() {
        "selftest" => {
            if let Err(e) = aj::selftest() {
                die(&e);
            }
            println!("selftest ok ({})", profile());
        }
        "profile" => println!("{}", profile()),
        "fmt-probe" => fmt_probe(),
        "encode" => cmd_encode(rest),
        "replay" => cmd_replay(rest),
        "record" => gen::cmd_record(rest),
        "numtext" => gen::cmd_numtext(rest),
        "helpers" => helpers::cmd_helpers(rest),
        "cli" => cli::cmd_cli(rest),
        "hist" => hist::cmd_hist(rest),
        "nest" => nest::cmd_nest(rest),
        "convert-trace" => convert::cmd_convert(rest),
        "nest-child" => nest::cmd_child(rest),
        "plain" => {
            // plain <aj.ndjson>: print rule/data as plain JSON (debug aid)
            for c in load_cases(&rest[0]) {
                println!("{}\t{}\t{}", c.rule, c.data, plain_exp(&c.raw["exp"]));
            }
        }
        other => die(&format!("unknown subcommand {}", other)),
    }
}

#[allow(dead_code)]
pub fn fmt_probe() {
    let xs = [1e15, 1e16, 1.5e16, 123456789012345680.0, 1e20, 1e21, 1.5e21, 1e22, 0.1, 0.00001, 0.000001, 1e-7, 1.5e-7, 123.456, 5e-324, 1.7976931348623157e308, 0.3, 1.0/3.0, 2.5, 100.5, 1e300, 9007199254740993.0, 18446744073709551616.0, 1e17, 12345678901234567.0, 0.000012345, 0.00001234, 99999999999999990000.0, 1e-5, 9.5e-6];
    for x in xs.iter() {
        println!("{:e} -> {}", x, serde_json::Number::from_f64(*x).unwrap());
    }
}
