fn main() {
    let r = serde_json::json!({"+":[1,2]});
    println!("{:?}", jsonlogic_rs::apply(&r, &serde_json::Value::Null));
    jsonlogic_rs::verif::set_enabled(true);
    let r = serde_json::json!({"log":[{"+":[1,2]}]});
    println!("{:?}", jsonlogic_rs::apply(&r, &serde_json::Value::Null));
    println!("{:?}", jsonlogic_rs::verif::take_events());
}
