pub fn cmd_helpers(_args: &[String]) { unimplemented!() }
