//! Direct calls of the crate's public coercion helpers (jsonlogic_rs::js_op::*), projected to an Outcome.
//! Results: bool -> JSON bool; String -> JSON string; f64 -> float-spelled JSON number, or the strings
//! "NaN" / "Infinity" / "-Infinity" when not finite; Option::None and Result::Err -> Err outcome.

use crate::run::Outcome;
use jsonlogic_rs::js_op;
use serde_json::{Number, Value};
use std::panic;

fn fval(f: f64) -> Value {
    if f.is_nan() {
        Value::String("NaN".into())
    } else if f.is_infinite() {
        Value::String(if f > 0.0 { "Infinity".into() } else { "-Infinity".into() })
    } else {
        Value::Number(Number::from_f64(f).unwrap())
    }
}

/// an error returned by a helper is rendered (Display, Debug) inside the guarded call, like a caller would
fn seen<T, E: std::fmt::Display + std::fmt::Debug>(r: Result<T, E>) -> Option<T> {
    match r {
        Ok(v) => Some(v),
        Err(e) => {
            let _ = format!("{} {:?}", e, e);
            None
        }
    }
}

fn call(name: &str, args: &[Value]) -> Result<Option<Value>, String> {
    let refs: Vec<&Value> = args.iter().collect();
    let a = |i: usize| -> &Value { &args[i] };
    Ok(match name {
        "to_string" => Some(Value::String(js_op::to_string(a(0)))),
        "str_to_number" => match a(0) {
            Value::String(s) => js_op::str_to_number(s).map(fval),
            _ => return Err("str_to_number needs a string".into()),
        },
        "to_number" => js_op::to_number(a(0)).map(fval),
        "parse_float" => js_op::parse_float(a(0)).map(fval),
        "abstract_eq" => Some(Value::Bool(js_op::abstract_eq(a(0), a(1)))),
        "abstract_ne" => Some(Value::Bool(js_op::abstract_ne(a(0), a(1)))),
        "strict_eq" => Some(Value::Bool(js_op::strict_eq(a(0), a(1)))),
        "strict_ne" => Some(Value::Bool(js_op::strict_ne(a(0), a(1)))),
        "abstract_lt" => Some(Value::Bool(js_op::abstract_lt(a(0), a(1)))),
        "abstract_lte" => Some(Value::Bool(js_op::abstract_lte(a(0), a(1)))),
        "abstract_gt" => Some(Value::Bool(js_op::abstract_gt(a(0), a(1)))),
        "abstract_gte" => Some(Value::Bool(js_op::abstract_gte(a(0), a(1)))),
        "abstract_max" => seen(js_op::abstract_max(&refs)).map(fval),
        "abstract_min" => seen(js_op::abstract_min(&refs)).map(fval),
        "abstract_plus" => Some(js_op::abstract_plus(a(0), a(1))),
        "parse_float_add" => seen(js_op::parse_float_add(&refs)).map(fval),
        "parse_float_mul" => seen(js_op::parse_float_mul(&refs)).map(fval),
        "abstract_minus" => seen(js_op::abstract_minus(a(0), a(1))).map(fval),
        "abstract_div" => seen(js_op::abstract_div(a(0), a(1))).map(fval),
        "abstract_mod" => seen(js_op::abstract_mod(a(0), a(1))).map(fval),
        "to_negative" => seen(js_op::to_negative(a(0))).map(fval),
        _ => return Err(format!("unknown helper {}", name)),
    })
}

pub fn run_helper(name: &str, args: &[Value]) -> Result<Outcome, String> {
    let res = panic::catch_unwind(|| call(name, args));
    Ok(match res {
        Ok(Ok(Some(v))) => Outcome { ok: true, v, log: vec![], events: vec![], crash: None },
        Ok(Ok(None)) => Outcome { ok: false, v: Value::Null, log: vec![], events: vec![], crash: None },
        Ok(Err(e)) => return Err(e),
        Err(p) => {
            let msg = if let Some(s) = p.downcast_ref::<&str>() {
                s.to_string()
            } else if let Some(s) = p.downcast_ref::<String>() {
                s.clone()
            } else {
                "panic".to_string()
            };
            Outcome { ok: false, v: Value::Null, log: vec![], events: vec![], crash: Some(format!("panic in js_op::{}: {}", name, msg)) }
        }
    })
}

pub fn cmd_helpers(_args: &[String]) {
    eprintln!("helper cases are replayed by `replay` (cases with an \"fn\" field)");
}
