------------------------------ MODULE JsonLogic ------------------------------
(***************************************************************************)
(* Big-step semantics of apply(rule, data): two-phase parsing (the eager   *)
(* skeleton is checked before anything is evaluated; operands of lazy      *)
(* operators are checked at the moment they are reached), evaluation with  *)
(* the left-to-right sequence of `log` lines.  Mirrors src/value.rs,       *)
(* src/op/mod.rs, op/logic.rs, op/array.rs (lazy operators).               *)
(* Only rule text is ever interpreted: values read from data, defaults     *)
(* and computed values are inert.                                          *)
(***************************************************************************)
EXTENDS Operators

\* result with log lines: [ok, v, log]
R(ok, v, lg) == [ok |-> ok, v |-> v, log |-> lg]
Fail(lg) == R(FALSE, Null, lg)
\* a failure of a named variant of the error enumeration; a failure passed on keeps its variant
FailK(kind, lg) == R(FALSE, Str(kind), lg)
Pass(e, lg) == R(FALSE, e.v, lg)

\* the eager skeleton: arity of every operation reachable through eager/data operands
RECURSIVE ParseOK(_)
ParseOK(r) == IF ~IsOperation(r) THEN TRUE
              ELSE /\ HeadOK(r)
                   /\ (KeyOf(r) \in LazyOps \/ \A j \in DOMAIN Operands(r) : ParseOK(Operands(r)[j]))

\* the first head error in the order the parser meets them (pre-order, operands left to right), or NoErr
RECURSIVE ParseErr(_), ParseErrArgs(_, _)
ParseErr(r) == IF ~IsOperation(r) THEN NoErr
               ELSE IF HeadErr(r) # NoErr THEN HeadErr(r)
               ELSE IF KeyOf(r) \in LazyOps THEN NoErr
               ELSE ParseErrArgs(Operands(r), 1)
ParseErrArgs(as, j) == IF j > Len(as) THEN NoErr
                       ELSE IF ParseErr(as[j]) # NoErr THEN ParseErr(as[j])
                       ELSE ParseErrArgs(as, j + 1)

\* the elements of a collection value for all/some/none, or "bad"
CharsOf(s) == [j \in DOMAIN s.v |-> Str(<<s.v[j]>>)]

RECURSIVE Ev(_, _), EvArgs(_, _, _, _, _, _), EvIf(_, _, _, _), EvAndOr(_, _, _, _, _, _),
          EvEach(_, _, _, _, _, _), EvReduce(_, _, _, _, _), EvQuant(_, _, _, _, _, _, _)

\* a lazily reached operand: its skeleton is checked first (no log lines on failure)
EvL(r, d) == IF ParseOK(r) THEN Ev(r, d) ELSE FailK(ParseErr(r), <<>>)

\* apply(rule, data)
Eval(r, d) == EvL(r, d)

Ev(r, d) ==
  IF ~IsOperation(r) THEN R(TRUE, r, <<>>)
  ELSE IF ~HeadOK(r) THEN FailK(HeadErr(r), <<>>)
  ELSE LET k == KeyOf(r)
           as == Operands(r)
       IN CASE k \in EagerOps \cup DataOps -> EvArgs(k, as, 1, <<>>, d, <<>>)
            [] k \in {K_if, K_tern} -> EvIf(as, 1, d, <<>>)
            [] k \in {K_and, K_or} -> EvAndOr(k, as, 1, d, <<>>, Null)
            [] k \in {K_map, K_filter} ->
                 LET c == EvL(as[1], d)
                 IN IF ~c.ok THEN c
                    ELSE IF c.v.t \notin {"a", "z"} THEN FailK(EK_InvalidArgument, c.log)
                    ELSE IF ~ParseOK(as[2]) THEN FailK(ParseErr(as[2]), c.log)
                    ELSE EvEach(k, IF c.v.t = "z" THEN <<>> ELSE c.v.v, as[2], 1, <<>>, c.log)
            [] k = K_reduce ->
                 LET c == EvL(as[1], d)
                 IN IF ~c.ok THEN c
                    ELSE LET i0 == EvL(as[3], d)
                         IN IF ~i0.ok THEN Pass(i0, c.log \o i0.log)
                            ELSE IF c.v.t \notin {"a", "z"} THEN FailK(EK_InvalidArgument, c.log \o i0.log)
                            ELSE IF ~ParseOK(as[2]) THEN FailK(ParseErr(as[2]), c.log \o i0.log)
                            ELSE EvReduce(IF c.v.t = "z" THEN <<>> ELSE c.v.v, as[2], 1, i0.v, c.log \o i0.log)
            [] k \in {K_all, K_some, K_none} ->
                 LET computed == as[1].t = "o"
                     c == IF computed THEN EvL(as[1], d) ELSE R(TRUE, as[1], <<>>)
                 IN IF ~c.ok THEN c
                    ELSE IF c.v.t \notin {"a", "s", "z"} THEN FailK(EK_InvalidArgument, c.log)
                    ELSE LET el == CASE c.v.t = "a" -> c.v.v
                                     [] c.v.t = "s" -> CharsOf(c.v)
                                     [] OTHER -> <<>>
                             lit == ~computed /\ c.v.t = "a"    \* literal array: elements are rule text
                         IN IF el = <<>> THEN R(TRUE, Bool(k = K_none), c.log)
                            ELSE IF ~ParseOK(as[2]) THEN FailK(ParseErr(as[2]), c.log)
                            ELSE EvQuant(k, lit, el, as[2], 1, d, c.log)

\* eager / data operator: operands left to right (the order among eager operands is not pinned
\* by any property; the machine of Machine.tla is nondeterministic there)
EvArgs(k, as, j, vs, d, lg) ==
  IF j > Len(as)
  THEN LET r == IF k \in DataOps THEN ApplyData(k, d, vs) ELSE ApplyEager(k, vs)
       IN IF r.ok THEN R(TRUE, r.v, IF k = K_log THEN Append(lg, vs[1]) ELSE lg) ELSE Pass(r, lg)
  ELSE LET a == Ev(as[j], d)
       IN IF ~a.ok THEN Pass(a, lg \o a.log)
          ELSE EvArgs(k, as, j + 1, Append(vs, a.v), d, lg \o a.log)

\* if / ?: : conditions left to right; only the branch paired with the first truthy condition
EvIf(as, j, d, lg) ==
  IF j > Len(as) THEN R(TRUE, Null, lg)
  ELSE LET c == EvL(as[j], d)
       IN IF ~c.ok THEN Pass(c, lg \o c.log)
          ELSE IF j = Len(as) THEN R(TRUE, c.v, lg \o c.log)        \* else-operand (or the single operand)
          ELSE IF Truthy(c.v)
               THEN LET b == EvL(as[j + 1], d) IN R(b.ok, b.v, lg \o c.log \o b.log)
               ELSE EvIf(as, j + 2, d, lg \o c.log)

\* and: first falsy value, or: first truthy value, else the last
EvAndOr(k, as, j, d, lg, last) ==
  IF j > Len(as) THEN R(TRUE, last, lg)
  ELSE LET c == EvL(as[j], d)
       IN IF ~c.ok THEN Pass(c, lg \o c.log)
          ELSE IF (k = K_and /\ ~Truthy(c.v)) \/ (k = K_or /\ Truthy(c.v)) THEN R(TRUE, c.v, lg \o c.log)
          ELSE EvAndOr(k, as, j + 1, d, lg \o c.log, c.v)

\* map / filter: the element is the entire data
EvEach(k, el, e, j, acc, lg) ==
  IF j > Len(el) THEN R(TRUE, Arr(acc), lg)
  ELSE LET x == Ev(e, el[j])
       IN IF ~x.ok THEN Pass(x, lg \o x.log)
          ELSE EvEach(k, el, e, j + 1,
                      IF k = K_map THEN Append(acc, x.v)
                      ELSE IF Truthy(x.v) THEN Append(acc, el[j]) ELSE acc,
                      lg \o x.log)

\* reduce: left fold; the data is exactly {current, accumulator}
EvReduce(el, e, j, acc, lg) ==
  IF j > Len(el) THEN R(TRUE, acc, lg)
  ELSE LET x == Ev(e, ReduceCtx(el[j], acc))
       IN IF ~x.ok THEN Pass(x, lg \o x.log) ELSE EvReduce(el, e, j + 1, x.v, lg \o x.log)

\* all / some / none over a non-empty collection, stopping at the first deciding element;
\* elements of a LITERAL array are rule text evaluated against the outer data, all others are data
EvQuant(k, lit, el, p, j, d, lg) ==
  IF j > Len(el) THEN R(TRUE, Bool(k = K_all \/ k = K_none), lg)
  ELSE LET it == IF lit THEN EvL(el[j], d) ELSE R(TRUE, el[j], <<>>)
       IN IF ~it.ok THEN Pass(it, lg \o it.log)
          ELSE LET x == Ev(p, it.v)
               IN IF ~x.ok THEN Pass(x, lg \o it.log \o x.log)
                  ELSE IF k = K_all /\ ~Truthy(x.v) THEN R(TRUE, False, lg \o it.log \o x.log)
                  ELSE IF k = K_some /\ Truthy(x.v) THEN R(TRUE, True, lg \o it.log \o x.log)
                  ELSE IF k = K_none /\ Truthy(x.v) THEN R(TRUE, False, lg \o it.log \o x.log)
                  ELSE EvQuant(k, lit, el, p, j + 1, d, lg \o it.log \o x.log)

\* builders used by the model modules
Op(k, args) == Obj(<< <<k, Arr(args)>> >>)
OpU(k, x) == Obj(<< <<k, x>> >>)            \* the bracket-less form
VarOf(path) == Op(K_var, <<Str(path)>>)
=============================================================================
