-------------------------------- MODULE Calls --------------------------------
(***************************************************************************)
(* Histories of apply calls: several threads, each running a program of    *)
(* calls over SHARED inputs (a pool of rules and data values).             *)
(*                                                                         *)
(* apply is a pure, stateless function of (rule, data): a call begins,     *)
(* writes the lines of its evaluated `log` operators one whole line at a   *)
(* time to the shared standard output, and ends with its result.  Nothing  *)
(* else is shared: `mem` stands for "anything remembered between calls"    *)
(* and no action reads it.  The grain is one step per log line (the only   *)
(* externally visible effect), which is where threads can interleave       *)
(* observably; inside a call the machine of Machine.tla applies.           *)
(***************************************************************************)
EXTENDS JsonLogic, FiniteSets

CONSTANTS Threads,     \* set of thread ids
          Pool         \* sequence of [rule, data] records: the shared inputs

VARIABLE Programs      \* Programs[t]: the sequence of indices into Pool that thread t calls (fixed per behaviour)

VARIABLES pool,        \* the shared inputs as the threads see them (must never change)
          pc,          \* pc[t]: index of the current / next call of thread t
          st,          \* st[t]: "idle" | "running"
          pend,        \* pend[t]: log lines of the running call not yet written
          results,     \* results[t]: sequence of outcomes [ok, v] of the finished calls
          stdout,      \* shared: sequence of <<thread, line>>
          mem          \* ghost: whatever an implementation might remember between calls

cvars == <<Programs, pool, pc, st, pend, results, stdout, mem>>

CallOf(t) == pool[Programs[t][pc[t]]]

CInit == /\ pool = Pool
         /\ pc = [t \in Threads |-> 1]
         /\ st = [t \in Threads |-> "idle"]
         /\ pend = [t \in Threads |-> <<>>]
         /\ results = [t \in Threads |-> <<>>]
         /\ stdout = <<>>
         /\ mem = {}

\* a call begins: it will produce exactly the log lines and the result of the isolated evaluation
Begin(t) == /\ st[t] = "idle" /\ pc[t] <= Len(Programs[t])
            /\ st' = [st EXCEPT ![t] = "running"]
            /\ pend' = [pend EXCEPT ![t] = Eval(CallOf(t).rule, CallOf(t).data).log]
            /\ mem' = mem \cup {Programs[t][pc[t]]}        \* written, never read
            /\ UNCHANGED <<Programs, pool, pc, results, stdout>>
\* one whole line is written
Emit(t) == /\ st[t] = "running" /\ pend[t] # <<>>
           /\ stdout' = Append(stdout, <<t, Head(pend[t])>>)
           /\ pend' = [pend EXCEPT ![t] = Tail(@)]
           /\ UNCHANGED <<Programs, pool, pc, st, results, mem>>
\* the call returns
End(t) == /\ st[t] = "running" /\ pend[t] = <<>>
          /\ LET e == Eval(CallOf(t).rule, CallOf(t).data)
             IN results' = [results EXCEPT ![t] = Append(@, [ok |-> e.ok, v |-> e.v])]
          /\ st' = [st EXCEPT ![t] = "idle"]
          /\ pc' = [pc EXCEPT ![t] = @ + 1]
          /\ UNCHANGED <<Programs, pool, pend, stdout, mem>>

AllDone == \A t \in Threads : st[t] = "idle" /\ pc[t] > Len(Programs[t])
CNext == (\E t \in Threads : Begin(t) \/ Emit(t) \/ End(t)) \/ (AllDone /\ UNCHANGED cvars)
CSpec == CInit /\ [][CNext]_cvars

(***************************************************************************)
(* Properties                                                              *)
(***************************************************************************)
\* every finished call returned what the same call returns in isolation, whatever happened before or meanwhile
HistoryIndependent ==
  \A t \in Threads : \A j \in DOMAIN results[t] :
    LET cl == Pool[Programs[t][j]]
        e == Eval(cl.rule, cl.data)
    IN results[t][j].ok = e.ok /\ (e.ok => SameValue(results[t][j].v, e.v))
\* the inputs are never modified
InputsUntouched == pool = Pool
InputsImmutableC == [][pool' = pool]_cvars
\* standard output is an interleaving of whole lines: per thread, exactly the lines of its calls, in order
RECURSIVE LinesOf(_, _)
LinesOf(t, s) == IF s = <<>> THEN <<>>
                 ELSE (IF s[1][1] = t THEN <<s[1][2]>> ELSE <<>>) \o LinesOf(t, Tail(s))
RECURSIVE ExpectedLines(_, _, _)
ExpectedLines(t, j, upto) == IF j > upto THEN <<>>
                             ELSE Eval(Pool[Programs[t][j]].rule, Pool[Programs[t][j]].data).log \o ExpectedLines(t, j + 1, upto)
IsPrefix(a, b) == Len(a) <= Len(b) /\ SubSeq(b, 1, Len(a)) = a
WholeLinesInOrder ==
  \A t \in Threads :
    LET got == LinesOf(t, stdout)
        done == ExpectedLines(t, 1, Len(results[t]))
        upToCurrent == ExpectedLines(t, 1, IF st[t] = "running" THEN pc[t] ELSE pc[t] - 1)
    IN IsPrefix(done, got) /\ IsPrefix(got, upToCurrent)
\* at the end: exactly one line per evaluated log
AllLinesWritten ==
  AllDone => \A t \in Threads : LinesOf(t, stdout) = ExpectedLines(t, 1, Len(Programs[t]))
CTermination == <>AllDone
=============================================================================
