------------------------------- MODULE BigNat -------------------------------
(***************************************************************************)
(* Arbitrary-precision naturals for TLC (whose integers are 32-bit).       *)
(* A natural is a little-endian sequence of limbs base 2^15 without a      *)
(* trailing (most significant) zero limb; zero is <<>>.  Limb products fit *)
(* in 31 bits.  The harness uses exactly this representation on the wire.  *)
(***************************************************************************)
EXTENDS Integers, Sequences

B == 32768

RECURSIVE Trim(_)
Trim(a) == IF a # <<>> /\ a[Len(a)] = 0 THEN Trim(SubSeq(a, 1, Len(a) - 1)) ELSE a

IsBigNat(a) == /\ a \in Seq(0..(B - 1))
               /\ (a # <<>> => a[Len(a)] # 0)

RECURSIVE AddC(_, _, _)
AddC(a, b, c) ==
  IF a = <<>> /\ b = <<>> THEN (IF c = 0 THEN <<>> ELSE <<c>>)
  ELSE LET x == IF a = <<>> THEN 0 ELSE a[1]
           y == IF b = <<>> THEN 0 ELSE b[1]
           s == x + y + c
       IN <<s % B>> \o AddC(IF a = <<>> THEN <<>> ELSE Tail(a),
                            IF b = <<>> THEN <<>> ELSE Tail(b), s \div B)
BAdd(a, b) == AddC(a, b, 0)

\* a >= b required
RECURSIVE SubC(_, _, _)
SubC(a, b, c) ==
  IF a = <<>> THEN <<>>
  ELSE LET y == IF b = <<>> THEN 0 ELSE b[1]
           d == a[1] - y - c
       IN <<IF d < 0 THEN d + B ELSE d>> \o
          SubC(Tail(a), IF b = <<>> THEN <<>> ELSE Tail(b), IF d < 0 THEN 1 ELSE 0)
BSub(a, b) == Trim(SubC(a, b, 0))

RECURSIVE CmpFrom(_, _, _)
CmpFrom(a, b, i) == IF i = 0 THEN 0
                    ELSE IF a[i] > b[i] THEN 1
                    ELSE IF a[i] < b[i] THEN -1 ELSE CmpFrom(a, b, i - 1)
\* -1, 0, 1
BCmp(a, b) == IF Len(a) > Len(b) THEN 1
              ELSE IF Len(a) < Len(b) THEN -1 ELSE CmpFrom(a, b, Len(a))

RECURSIVE MulS(_, _, _)
MulS(a, k, c) == IF a = <<>> THEN (IF c = 0 THEN <<>> ELSE <<c>>)
                 ELSE LET p == a[1] * k + c IN <<p % B>> \o MulS(Tail(a), k, p \div B)
\* k < 2^15
BMulSmall(a, k) == IF k = 0 THEN <<>> ELSE MulS(a, k, 0)

RECURSIVE BMul(_, _)
BMul(a, b) == IF a = <<>> \/ b = <<>> THEN <<>>
              ELSE BAdd(MulS(a, b[1], 0),
                        IF Len(b) = 1 THEN <<>> ELSE <<0>> \o BMul(a, Tail(b)))

Pow2Tab == [r \in 0..15 |-> 2^r]
Pow2(r) == Pow2Tab[r]

RECURSIVE SmallBitLen(_)
SmallBitLen(x) == IF x = 0 THEN 0 ELSE 1 + SmallBitLen(x \div 2)
BitLen(a) == IF a = <<>> THEN 0 ELSE (Len(a) - 1) * 15 + SmallBitLen(a[Len(a)])

Zeros(q) == [j \in 1..q |-> 0]
Shl(a, k) == IF a = <<>> THEN <<>> ELSE Zeros(k \div 15) \o MulS(a, Pow2(k % 15), 0)

\* divide limbs a[1..i] (processed from the top limb down) by 2^r, r < 15
RECURSIVE ShrSmallHi(_, _, _, _)
ShrSmallHi(a, i, r, carry) ==
  IF i = 0 THEN <<>>
  ELSE LET cur == carry * B + a[i]
       IN ShrSmallHi(a, i - 1, r, cur % Pow2(r)) \o <<cur \div Pow2(r)>>

AnyNonZero(a, n) == \E j \in 1..n : a[j] # 0
\* bit k (0-based) of a
BitAt(a, k) == LET li == k \div 15 + 1
               IN IF li > Len(a) THEN 0 ELSE (a[li] \div Pow2(k % 15)) % 2
\* any of the bits 0..k-1 set
LowNonZero(a, k) ==
  LET q == k \div 15
      r == k % 15
  IN \/ (q > 0 /\ AnyNonZero(a, IF q > Len(a) THEN Len(a) ELSE q))
     \/ (r > 0 /\ q + 1 <= Len(a) /\ a[q + 1] % Pow2(r) # 0)
\* a div 2^k
ShrQ(a, k) ==
  LET q == k \div 15
      r == k % 15
  IN IF q >= Len(a) THEN <<>>
     ELSE LET hi == SubSeq(a, q + 1, Len(a))
          IN Trim(IF r = 0 THEN hi ELSE ShrSmallHi(hi, Len(hi), r, 0))

One == <<1>>

\* schoolbook binary long division: <<quotient, remainder>>
RECURSIVE DivLoop(_, _, _, _)
DivLoop(n, d, i, q) ==
  IF i < 0 THEN <<q, n>>
  ELSE LET c == Shl(d, i)
       IN IF BCmp(n, c) >= 0
          THEN DivLoop(BSub(n, c), d, i - 1, BAdd(q, Shl(One, i)))
          ELSE DivLoop(n, d, i - 1, q)
BDivMod(n, d) == IF BCmp(n, d) < 0 THEN <<<<>>, n>>
                 ELSE DivLoop(n, d, BitLen(n) - BitLen(d), <<>>)

\* division by a small number k (0 < k < 2^15), from the top limb: <<quotient, remainder (int)>>
RECURSIVE DivSmallHi(_, _, _, _)
DivSmallHi(a, i, k, carry) ==
  IF i = 0 THEN <<<<>>, carry>>
  ELSE LET cur == carry * B + a[i]
           rest == DivSmallHi(a, i - 1, k, cur % k)
       IN <<rest[1] \o <<cur \div k>>, rest[2]>>
BDivSmall(a, k) == LET r == DivSmallHi(a, Len(a), k, 0) IN <<Trim(r[1]), r[2]>>

\* small TLC integer (< 2^30) to BigNat and back
FromSmall(n) == IF n = 0 THEN <<>>
                ELSE IF n < B THEN <<n>>
                ELSE Trim(<<n % B, n \div B>>)
\* only for values known to be < 2^30
ToSmall(a) == IF a = <<>> THEN 0
              ELSE IF Len(a) = 1 THEN a[1] ELSE a[1] + B * a[2]
FitsSmall(a) == Len(a) <= 2

\* decimal digits (code points, most significant first) of a; zero is "0"
RECURSIVE DecDigitsAcc(_, _)
DecDigitsAcc(a, acc) ==
  IF a = <<>> THEN acc
  ELSE LET qr == BDivSmall(a, 10) IN DecDigitsAcc(qr[1], <<48 + qr[2]>> \o acc)
DecDigits(a) == IF a = <<>> THEN <<48>> ELSE DecDigitsAcc(a, <<>>)

\* 10^n, memoised as a function so that TLC caches it
\* 10^n by square-and-multiply (TLC does not cache definitions that go through RECURSIVE operators,
\* so a table would be rebuilt at every use; this costs O(log n) big multiplications instead)
Pow10Small == <<One, <<10>>, <<100>>, <<1000>>, <<10000>>, <<1696, 3>>, <<16960, 30>>, <<5760, 305>>, <<24832, 3051>>>>
RECURSIVE Pow10(_)
Pow10(n) == IF n <= 8 THEN Pow10Small[n + 1]
            ELSE LET h == Pow10(n \div 2)
                     sq == BMul(h, h)
                 IN IF n % 2 = 0 THEN sq ELSE BMulSmall(sq, 10)
=============================================================================
