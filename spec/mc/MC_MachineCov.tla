---------------------------- MODULE MC_MachineCov ----------------------------
(***************************************************************************)
(* Action coverage of the small-step machine: the set of machine actions   *)
(* taken along each behaviour is carried as a history variable and printed *)
(* at the terminal state (TLC's own -coverage instrumentation is           *)
(* prohibitively slow on this recursion-heavy specification).              *)
(***************************************************************************)
EXTENDS MC_Machine

VARIABLE acts
cvars2 == <<c, rule, data, phase, stack, ret, out, evals, dup, acts>>
Tag(a, name) == a /\ acts' = acts \cup {name}
CovInit == Init /\ acts = {}
CovNext == /\ UNCHANGED c
           /\ \/ Tag(Start, "Start") \/ Tag(EvalOperand, "EvalOperand") \/ Tag(OperandDone, "OperandDone") \/ Tag(Apply, "Apply")
              \/ Tag(IfStep, "IfStep") \/ Tag(AndOrStep, "AndOrStep") \/ Tag(EachStep, "EachStep") \/ Tag(ReduceStep, "ReduceStep")
              \/ Tag(QuantStep, "QuantStep") \/ Tag(Finish, "Finish") \/ (Done /\ UNCHANGED acts)
CovSpec == CovInit /\ [][CovNext]_cvars2
ReportActs == phase = "done" => PrintT(<<"ACTS", acts>>)
=============================================================================
