------------------------------ MODULE MC_StrNum ------------------------------
(***************************************************************************)
(* String -> number conversion of the implementation against the           *)
(* specification (which is itself checked against the engine-recorded      *)
(* fixture in MC_ES): every string of the fixture (all strings of length   *)
(* <= 4 over {0 1 5 . e + - space x a} plus curated spellings) through     *)
(* js_op::str_to_number (ES StringToNumber), js_op::parse_float (ES        *)
(* parseFloat) and through the rule interface (== against the number the   *)
(* string denotes, + with one operand).                                    *)
(***************************************************************************)
EXTENDS MCBase

Num == ndJsonDeserialize(IOEnv.VERIF_FIXTURES \o "/es_num.ndjson")
Own == IOEnv.VERIF_FAMILY      \* the property on whose behalf the run is made (C07, C09 or C10)

VARIABLES c, phase
vars == <<c, phase>>
InFamily(x) == x \in [i : 1..Len(Num), w : 1..4]
Init == InFamily(c) /\ phase = "new"
Next == phase = "new" /\ phase' = "done" /\ UNCHANGED c
Spec == Init /\ [][Next]_vars

S(cc) == Num[cc.i].s
Scope(cc) == <<Own>>      \* ES StrWhiteSpace exactly (U+FEFF stripped, U+0085 not)
\* the number the string denotes, as a JSON number (when finite): s == that number must hold
Denoted(cc) == StringToNumber(S(cc))
ExportCases ==
  phase = "done" =>
    CASE c.w = 1 -> ExportLine(HelperLine(<<c.i, 1>>, "str_to_number", <<Str(S(c))>>, OptF(StringToNumber(S(c))), Scope(c)))
      [] c.w = 2 -> ExportLine(HelperLine(<<c.i, 2>>, "parse_float", <<Str(S(c))>>, OptF(ParseFloat(S(c))), Scope(c)))
      [] c.w = 3 -> LET f == Denoted(c)
                        n == IF f.k = "fin" THEN NumberToValue(f).v ELSE IntV(7)
                        r == Op(K_eq, <<Str(S(c)), n>>)
                    IN Export(<<c.i, 3>>, r, Null, Eval(r, Null), Scope(c), NoFlags)
      [] c.w = 4 -> LET r == Op(K_add, <<Str(S(c))>>)
                    IN Export(<<c.i, 4>>, r, Null, Eval(r, Null), Scope(c), Flags(TRUE, FALSE))
\* the string equals the number it denotes, and nothing when it denotes none
DenotationLaw ==
  phase = "done" /\ c.w = 3 =>
    LET f == Denoted(c)
        n == IF f.k = "fin" THEN NumberToValue(f).v ELSE IntV(7)
    IN Eval(Op(K_eq, <<Str(S(c)), n>>), Null).v = Bool(f.k = "fin")
=============================================================================
