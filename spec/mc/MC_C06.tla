------------------------------- MODULE MC_C06 -------------------------------
(***************************************************************************)
(* C06: one truthiness table governs every boolean decision.               *)
(* Family: every corpus value x every deciding position x three ways of    *)
(* reaching the value (literal, through var, as an operator result).       *)
(* On the spec: the operational Truthy agrees with the declarative table   *)
(* IsFalsy, and every position decides by that table.                      *)
(***************************************************************************)
EXTENDS MCBase

V6 == Corpus("V6")
E6 == Corpus("E6")
\* look-alike values as literal members; the last Len(LR6) are rule-shaped: written inside an array literal they
\* are inert for filter / map / merge (C02), while all / some treat the members of a literal array as rule text
LR6 == Corpus("LR6")
LA6 == Corpus("LA6") \o LR6
Inert6(j) == j <= Len(LA6) - Len(LR6)
NPos == 19

VARIABLES c, phase
vars == <<c, phase>>

S_v == <<118>>
I0 == IntV(0)
I1 == IntV(1)
I7 == IntV(7)
ST == Str(<<116>>)
SF == Str(<<102>>)

\* the expression reaching the value, and the data it needs
S_vsm1 == <<118, 115, 46, 45, 49>>      \* "vs.-1"
S_vs == <<118, 115>>
ExprOf(cc) == CASE cc.way = 1 -> V6[cc.i]
                [] cc.way = 2 -> VarOf(S_v)
                [] cc.way = 3 -> E6[cc.i]
                [] cc.way = 4 -> VarOf(S_vsm1)                   \* a dotted path with a negative index
                [] cc.way = 5 -> Op(K_var, <<IntV(-1)>>)         \* an integer key into array data
DataOf(cc) == CASE cc.way \in {1, 6} -> Null
                [] cc.way = 2 -> Obj(<< <<S_v, V6[cc.i]>> >>)
                [] cc.way = 3 -> Obj(<<>>)
                [] cc.way = 4 -> Obj(<< <<S_vs, Arr(<<IntV(0), V6[cc.i]>>)>> >>)
                [] cc.way = 5 -> Arr(<<IntV(0), V6[cc.i]>>)
\* the value reached (for way 3 through the specification itself)
ValOf(cc) == IF cc.way = 3 THEN Eval(E6[cc.i], Obj(<<>>)).v ELSE V6[cc.i]

PairRule(cc) ==
  LET col == Arr(<<LA6[cc.i], LA6[cc.pos]>>) IN
  CASE cc.op = 1 -> Op(K_filter, <<col, VarOf(<<>>)>>)
    [] cc.op = 2 -> Op(K_map, <<col, Op(K_notnot, <<VarOf(<<>>)>>)>>)
    [] cc.op = 3 -> Op(K_all, <<col, VarOf(<<>>)>>)
    [] cc.op = 4 -> Op(K_some, <<col, VarOf(<<>>)>>)
    [] cc.op = 5 -> Op(K_filter, <<Op(K_merge, <<col, col>>), Op(K_not, <<VarOf(<<>>)>>)>>)
PairExpected(cc) ==
  LET a == LA6[cc.i]
      b == LA6[cc.pos]
      ta == ~IsFalsy(a)
      tb == ~IsFalsy(b)
      keep(x, t) == IF t THEN <<x>> ELSE <<>>
  IN CASE cc.op = 1 -> Arr(keep(a, ta) \o keep(b, tb))
       [] cc.op = 2 -> Arr(<<Bool(ta), Bool(tb)>>)
       [] cc.op = 3 -> Bool(ta /\ tb)
       [] cc.op = 4 -> Bool(ta \/ tb)
       [] cc.op = 5 -> Arr(keep(a, ~ta) \o keep(b, ~tb) \o keep(a, ~ta) \o keep(b, ~tb))
RuleOf(cc) ==
  IF cc.way = 6 THEN PairRule(cc) ELSE
  LET e == ExprOf(cc)
      D == DataOf(cc)
  IN CASE cc.pos = 1 -> Op(K_not, <<e>>)
       [] cc.pos = 2 -> Op(K_notnot, <<e>>)
       [] cc.pos = 3 -> Op(K_if, <<e, I1, I0>>)
       [] cc.pos = 4 -> Op(K_and, <<e, I1>>)
       [] cc.pos = 5 -> Op(K_or, <<e, I1>>)
       [] cc.pos = 6 -> Op(K_tern, <<e, ST, SF>>)
       [] cc.pos = 7 -> Op(K_if, <<I0, I1, e, ST, SF>>)
       [] cc.pos = 8 -> Op(K_filter, <<Arr(<<D>>), e>>)
       [] cc.pos = 9 -> Op(K_all, <<Arr(<<D>>), e>>)
       [] cc.pos = 10 -> Op(K_some, <<Arr(<<D>>), e>>)
       [] cc.pos = 11 -> Op(K_none, <<Arr(<<D>>), e>>)
       [] cc.pos = 12 -> Op(K_map, <<Arr(<<D>>), Op(K_notnot, <<e>>)>>)
       [] cc.pos = 13 -> OpU(K_not, Op(K_not, <<e>>))
       [] cc.pos = 14 -> Op(K_and, <<I7, e, ST>>)
       \* the bracket-less spelling (an array LITERAL cannot be written without brackets: it would be the operand list)
       [] cc.pos = 15 -> IF e.t = "a" THEN Op(K_notnot, <<e>>) ELSE OpU(K_notnot, e)
       [] cc.pos = 16 -> IF e.t = "a" THEN Op(K_not, <<e>>) ELSE OpU(K_not, e)
       \* the expression as the member of a LITERAL collection (evaluated against the outer data), identity predicate
       [] cc.pos = 17 -> Op(K_all, <<Arr(<<e>>), VarOf(<<>>)>>)
       [] cc.pos = 18 -> Op(K_some, <<Arr(<<IntV(0), e>>), VarOf(<<>>)>>)
       [] cc.pos = 19 -> Op(K_none, <<Arr(<<e, Null>>), VarOf(<<>>)>>)

\* what the statement's table dictates for each position
Expected(cc) ==
  IF cc.way = 6 THEN PairExpected(cc) ELSE
  LET v == ValOf(cc)
      D == DataOf(cc)
      t == ~IsFalsy(v)
  IN CASE cc.pos = 1 -> Bool(~t)
       [] cc.pos = 2 -> Bool(t)
       [] cc.pos = 3 -> IF t THEN I1 ELSE I0
       [] cc.pos = 4 -> IF t THEN I1 ELSE v
       [] cc.pos = 5 -> IF t THEN v ELSE I1
       [] cc.pos = 6 -> IF t THEN ST ELSE SF
       [] cc.pos = 7 -> IF t THEN ST ELSE SF
       [] cc.pos = 8 -> IF t THEN Arr(<<D>>) ELSE Arr(<<>>)
       [] cc.pos = 9 -> Bool(t)
       [] cc.pos = 10 -> Bool(t)
       [] cc.pos = 11 -> Bool(~t)
       [] cc.pos = 12 -> Arr(<<Bool(t)>>)
       [] cc.pos = 13 -> Bool(t)
       [] cc.pos = 14 -> IF t THEN ST ELSE v
       [] cc.pos = 15 -> Bool(t)
       [] cc.pos = 16 -> Bool(~t)
       [] cc.pos = 17 -> Bool(t)
       [] cc.pos = 18 -> Bool(t)
       [] cc.pos = 19 -> Bool(~t)

\* way 6: PAIRS of look-alike values (0 / "0", null / "null", ...) in one collection; i, pos index the pair, op the operator
Family == [way : {1, 2, 4, 5}, i : 1..Len(V6), pos : 1..NPos] \cup [way : {3}, i : 1..Len(E6), pos : 1..NPos]
          \cup {x \in [way : {6}, i : 1..Len(LA6), pos : 1..Len(LA6), op : 1..5] :
                   x.op \in {3, 4} => Inert6(x.i) /\ Inert6(x.pos)}

Init == c \in Family /\ phase = "new"
Next == phase = "new" /\ phase' = "done" /\ UNCHANGED c
Spec == Init /\ [][Next]_vars

Outcome(cc) == Eval(RuleOf(cc), DataOf(cc))

\* -------- invariants on the specification
TableAgreement == phase = "done" /\ c.way # 6 => (Truthy(ValOf(c)) <=> ~IsFalsy(ValOf(c)))
PositionsFollowTable ==
  phase = "done" => LET o == Outcome(c) IN o.ok /\ SameValue(o.v, Expected(c))
NegationExact ==
  phase = "done" /\ c.way # 6 /\ c.pos = 1 =>
    LET a == Outcome(c)
        b == Outcome([c EXCEPT !.pos = 2])
    IN a.ok /\ b.ok /\ a.v.v = ~b.v.v
ExportCases ==
  phase = "done" => Export(<<c.way, c.i, c.pos, IF c.way = 6 THEN c.op ELSE 0>>, RuleOf(c), DataOf(c), Outcome(c), <<"C06">>, NoFlags)
=============================================================================
