------------------------------- MODULE MC_Rel -------------------------------
(***************************************************************************)
(* C07 (== !=), C08 (=== !==), C09 (< <= > >= and between).                *)
(* Family: all ordered pairs of the value corpus under each operator,      *)
(* through the rule interface (operands as literals and through var) and   *)
(* through the public js_op helpers; for C09 also triples of a sub-corpus. *)
(* On the spec: the ES transcription satisfies the laws of the statements  *)
(* (symmetry, exact negation, mirror, conjunction, strict => loose, ...).  *)
(***************************************************************************)
EXTENDS MCBase

Fam == IOEnv.VERIF_FAMILY
V == IF Fam = "C09" THEN Corpus("V9") ELSE Corpus("V7")
N == Len(V)
NT == IF Deep THEN 24 ELSE 14       \* triples over the first NT values of a spread sub-corpus
\* a spread selection of V9 for triples (indices chosen to cover every type and the interesting conversions)
TripleIdx == <<1, 2, 4, 6, 9, 19, 22, 36, 37, 39, 40, 55, 57, 69, 3, 8, 28, 33, 23, 30, 58, 59, 43, 13>>

VARIABLES c, phase
vars == <<c, phase>>

S_b == <<98>>

Ops == CASE Fam = "C07" -> <<K_eq, K_ne>>
         [] Fam = "C08" -> <<K_seq, K_sne>>
         [] Fam = "C09" -> <<K_lt, K_lte, K_gt, K_gte>>
HelperName(k) ==
  CASE k = K_eq -> "abstract_eq" [] k = K_ne -> "abstract_ne" [] k = K_seq -> "strict_eq" [] k = K_sne -> "strict_ne"
    [] k = K_lt -> "abstract_lt" [] k = K_lte -> "abstract_lte" [] k = K_gt -> "abstract_gt" [] k = K_gte -> "abstract_gte"

Family ==
       [kind : {"lit", "helper"}, o : 1..Len(Ops), i : 1..N, j : 1..N, l : {0}]
  \cup [kind : {"var"}, o : 1..Len(Ops), i : {x \in 1..N : x % 3 = 1}, j : 1..N, l : {0}]
  \cup (IF Fam = "C09" THEN [kind : {"tri"}, o : 1..Len(Ops), i : 1..NT, j : 1..NT, l : 1..NT] ELSE {})
  \cup (IF Fam = "C08" THEN {x \in [kind : {"implies"}, o : {1}, i : 1..N, j : 1..N, l : {0}] : StrictEq(V[x.i], V[x.j])} ELSE {})
  \cup (IF Fam = "C08" THEN {[kind |-> "samevar", o |-> o, i |-> i, j |-> i, l |-> 0] : o \in 1..Len(Ops), i \in 1..N} ELSE {})

A(cc) == IF cc.kind = "tri" THEN V[TripleIdx[cc.i]] ELSE V[cc.i]
Bv(cc) == IF cc.kind = "tri" THEN V[TripleIdx[cc.j]] ELSE V[cc.j]
Cv(cc) == V[TripleIdx[cc.l]]

RuleOf(cc) ==
  LET k == Ops[cc.o] IN
  CASE cc.kind = "lit" -> Op(k, <<A(cc), Bv(cc)>>)
    [] cc.kind = "var" -> Op(k, <<VarOf(S_a), VarOf(S_b)>>)
    [] cc.kind = "tri" -> Op(k, <<A(cc), Bv(cc), Cv(cc)>>)
    [] cc.kind = "samevar" -> Op(k, <<VarOf(S_a), VarOf(S_a)>>)
    [] cc.kind = "implies" -> Op(K_eq, <<A(cc), Bv(cc)>>)        \* whenever === holds, == holds too
    [] cc.kind = "helper" -> Null
DataOf(cc) ==
  CASE cc.kind = "var" -> Obj(<< <<S_a, A(cc)>>, <<S_b, Bv(cc)>> >>)
    [] cc.kind = "samevar" -> Obj(<< <<S_a, A(cc)>> >>)
    [] OTHER -> Null

Init == c \in Family /\ phase = "new"
Next == phase = "new" /\ phase' = "done" /\ UNCHANGED c
Spec == Init /\ [][Next]_vars

\* the relation itself, from the ES transcription
Holds(k, a, b) ==
  CASE k = K_eq -> AbstractEq(a, b) [] k = K_ne -> AbstractNe(a, b)
    [] k = K_seq -> StrictEq(a, b) [] k = K_sne -> StrictNe(a, b)
    [] OTHER -> RelOp(k, a, b)
Outcome(cc) ==
  IF cc.kind = "helper" THEN R(TRUE, Bool(Holds(Ops[cc.o], A(cc), Bv(cc))), <<>>)
  ELSE Eval(RuleOf(cc), DataOf(cc))

\* pairs with a white-space code point on which Rust's trim and ES StrWhiteSpace differ by definition
RECURSIVE Disputed(_)
Disputed(v) == CASE v.t = "s" -> HasDisputedWS(v.v)
                 [] v.t = "a" -> \E q \in DOMAIN v.v : Disputed(v.v[q])
                 [] OTHER -> FALSE
\* the statements pin JavaScript's string-to-number rules, so the white-space set is ES StrWhiteSpace exactly
\* (U+FEFF is stripped, U+0085 is not); strings with those code points are in scope like any other
Scope(cc) == <<Fam>>

\* -------- invariants on the specification
RuleEqualsRelation ==
  phase = "done" /\ c.kind \in {"lit", "var"} =>
     LET o == Outcome(c) IN o.ok /\ o.v = Bool(Holds(Ops[c.o], A(c), Bv(c)))
Laws ==
  phase = "done" /\ c.kind = "lit" =>
    LET a == A(c)
        b == Bv(c)
    IN CASE Fam = "C07" -> /\ AbstractEq(a, b) = AbstractEq(b, a)
                           /\ AbstractNe(a, b) = ~AbstractEq(a, b)
                           /\ (a.t = "z" => (AbstractEq(a, b) <=> b.t = "z"))
                           /\ (a.t \in {"a", "o"} /\ b.t \in {"a", "o"} => ~AbstractEq(a, b))
         [] Fam = "C08" -> /\ StrictEq(a, b) = StrictEq(b, a)
                           /\ StrictNe(a, b) = ~StrictEq(a, b)
                           /\ (StrictEq(a, b) => AbstractEq(a, b))
                           /\ (StrictEq(a, b) => a.t = b.t /\ a.t \in {"z", "b", "n", "s"})
                           /\ (a.t = "n" /\ b.t = "n" => (StrictEq(a, b) <=> FEq(F(a), F(b))))
         [] Fam = "C09" -> /\ Gt(a, b) = Lt(b, a)
                           /\ Gte(a, b) = Lte(b, a)
                           \* <= holds exactly when the converted operands are less or equal
                           /\ (Lte(a, b) <=> (Lt(a, b) \/ (LtRes(a, b) = "F" /\ LtRes(b, a) = "F")))
                           /\ (LtRes(a, b) = "U" => ~Lt(a, b) /\ ~Lte(a, b) /\ ~Gt(a, b) /\ ~Gte(a, b))
Between ==
  phase = "done" /\ c.kind = "tri" =>
    LET o == Outcome(c)
        k == Ops[c.o]
    IN o.ok /\ o.v = Bool(RelOp(k, A(c), Bv(c)) /\ RelOp(k, Bv(c), Cv(c)))
StrictImpliesLoose ==
  phase = "done" /\ c.kind = "implies" => Outcome(c).ok /\ Outcome(c).v = True
SameVarNeverStrictlyEqualContainers ==
  phase = "done" /\ c.kind = "samevar" /\ A(c).t \in {"a", "o"} => Outcome(c).v = Bool(Ops[c.o] = K_sne)
ExportCases ==
  phase = "done" =>
    IF c.kind = "helper"
    THEN ExportLine(ToJson([id |-> <<c.kind, c.o, c.i, c.j>>, fn |-> HelperName(Ops[c.o]), args |-> <<A(c), Bv(c)>>,
                            rule |-> Null, data |-> Null,
                            exp |-> [ok |-> TRUE, v |-> Outcome(c).v, log |-> <<>>], sc |-> Scope(c), fl |-> NoFlags]) \o "\n")
    ELSE Export(<<c.kind, c.o, c.i, c.j, c.l>>, RuleOf(c), DataOf(c), Outcome(c), Scope(c), NoFlags)
=============================================================================
