SPECIFICATION FairSpec
PROPERTY Termination
CHECK_DEADLOCK TRUE
