------------------------------- MODULE MC_C16 -------------------------------
(***************************************************************************)
(* C16: cat concatenates JavaScript string forms (a number's form is its   *)
(* JSON text); substr counts in Unicode characters, never bytes, negative  *)
(* start counts from the end, negative length stops before the end,        *)
(* everything clamps; substr(s,0,i) followed by substr(s,i) is s.          *)
(***************************************************************************)
EXTENDS MCBase

CV16 == Corpus("CV16")
IX16 == Corpus("IX16")
BADIX16 == Corpus("BADIX16")
NS16 == Corpus("NS16")
NE16 == Corpus("NE16")
NC == Len(CV16)
Alpha == <<97, 233, 8364, 128512>>          \* 1-, 2-, 3- and 4-byte UTF-8 characters
MaxStr == IF Deep THEN 4 ELSE 3
Strs == UNION {[1..m -> 1..4] : m \in 0..MaxStr}

VARIABLES c, phase
vars == <<c, phase>>

InFamily(x) ==
  \/ \E m \in 0..2 : x \in [kind : {"cat"}, t : [1..m -> 1..NC], s : {<<>>}, i : {0}, l : {0}]
  \/ x \in [kind : {"cat3"}, t : [1..3 -> {1, 3, 5, 9, 13, 17, 23, 25, 30, 31}], s : {<<>>}, i : {0}, l : {0}]
  \/ x \in [kind : {"sub"}, t : {<<>>}, s : Strs, i : 1..Len(IX16), l : 0..Len(IX16)]
  \* thorough: strings of length 5..8 over {a, emoji} (1- and 4-byte characters), every start / length of the index corpus
  \/ (Deep /\ \E m \in 5..8 : x \in [kind : {"sub"}, t : {<<>>}, s : [1..m -> {1, 4}], i : 1..Len(IX16), l : 0..Len(IX16)])
  \* computed non-integral numbers: their string form is the shortest round-trip text (spec/NumText.tla)
  \/ \E q \in 1..Len(NE16) : x \in [kind : {"catnum"}, t : {<<>>}, s : {<<>>}, i : {q}, l : {q, (q % Len(NE16)) + 1}]
  \/ x \in [kind : {"badix"}, t : {<<>>}, s : {<<1, 2>>}, i : 1..Len(BADIX16), l : 0..1]
  \/ x \in [kind : {"nonstr"}, t : {<<>>}, s : {<<>>}, i : 1..Len(NS16), l : {0}]

StrOf(cc) == Str([q \in DOMAIN cc.s |-> Alpha[cc.s[q]]])
Vals(cc) == [q \in DOMAIN cc.t |-> CV16[cc.t[q]]]
RuleOf(cc) ==
  CASE cc.kind \in {"cat", "cat3"} -> Op(K_cat, Vals(cc))
    [] cc.kind = "sub" -> IF cc.l = 0 THEN Op(K_substr, <<StrOf(cc), IX16[cc.i]>>)
                          ELSE Op(K_substr, <<StrOf(cc), IX16[cc.i], IX16[cc.l]>>)
    [] cc.kind = "catnum" -> Op(K_cat, <<NE16[cc.i], Str(<<124>>), Arr(<<IntV(1)>>), NE16[cc.l]>>)
    [] cc.kind = "badix" -> IF cc.l = 0 THEN Op(K_substr, <<StrOf(cc), BADIX16[cc.i]>>)
                            ELSE Op(K_substr, <<StrOf(cc), IntV(0), BADIX16[cc.i]>>)
    [] cc.kind = "nonstr" -> Op(K_substr, <<NS16[cc.i], IntV(0)>>)

Init == InFamily(c) /\ phase = "new"
Next == phase = "new" /\ phase' = "done" /\ UNCHANGED c
Spec == Init /\ [][Next]_vars
Outcome(cc) == Eval(RuleOf(cc), Null)
Scope(cc) == IF cc.kind \in {"badix", "nonstr"} THEN <<>> ELSE <<"C16">>

\* -------- invariants on the specification
CatLaws ==
  phase = "done" /\ c.kind \in {"cat", "cat3"} =>
    LET o == Outcome(c)
        vs == Vals(c)
    IN /\ o.ok /\ o.v.t = "s"
       \* strings unchanged, null "null", empty list ""
       /\ (Len(vs) = 0 => o.v.v = <<>>)
       /\ (Len(vs) = 1 /\ vs[1].t = "s" => o.v.v = vs[1].v)
       \* concatenating in pieces equals concatenating at once
       /\ (Len(vs) = 3 =>
             SameValue(o.v, Eval(Op(K_cat, <<Op(K_cat, <<vs[1], vs[2]>>), vs[3]>>), Null).v)
             /\ SameValue(o.v, Eval(Op(K_cat, <<vs[1], Op(K_cat, <<vs[2], vs[3]>>)>>), Null).v))
\* substr stated directly on characters with small integers (the index corpus is clamped here by hand)
SmallIx(n, len) == IF ~FitsSmall(n.m) \/ ToSmall(n.m) > len THEN (IF n.s = 1 THEN -(len + 1) ELSE len + 1)
                   ELSE IF n.s = 1 THEN -ToSmall(n.m) ELSE ToSmall(n.m)
SubstrLaws ==
  phase = "done" /\ c.kind = "sub" =>
    LET o == Outcome(c)
        cs == StrOf(c).v
        len == Len(cs)
        st == SmallIx(IX16[c.i], len)
        from == IF st >= 0 THEN (IF st > len THEN len ELSE st) ELSE (IF len + st < 0 THEN 0 ELSE len + st)
        to == IF c.l = 0 THEN len
              ELSE LET ln == SmallIx(IX16[c.l], len)
                   IN IF ln >= 0 THEN (IF from + ln > len THEN len ELSE from + ln)
                      ELSE (IF len + ln < 0 THEN 0 ELSE len + ln)
    IN /\ o.ok /\ o.v.t = "s"
       /\ o.v.v = [q \in 1..(IF to > from THEN to - from ELSE 0) |-> cs[from + q]]
SplitLaw ==
  phase = "done" /\ c.kind = "sub" /\ c.l = 0 /\ IX16[c.i].s = 0 =>
    LET s == StrOf(c)
        a == Eval(Op(K_substr, <<s, IntV(0), IX16[c.i]>>), Null)
        b == Outcome(c)
    IN a.ok /\ b.ok /\ a.v.v \o b.v.v = s.v
\* the string form of a computed number reads back (StringToNumber) to the same double
CatNumRoundTrips ==
  phase = "done" /\ c.kind = "catnum" =>
    LET a == Eval(NE16[c.i], Null)
        o == Outcome(c)
    IN a.ok => /\ o.ok
               /\ LET txt == SubSeq(o.v.v, 1, Len(ToStringJS(a.v)))
                  IN txt = ToStringJS(a.v) /\ FEq(StringToNumber(txt), F(a.v))
ExportCases ==
  phase = "done" => Export(<<c.kind, c.t, c.s, c.i, c.l>>, RuleOf(c), Null, Outcome(c), Scope(c), NoFlags)
=============================================================================
