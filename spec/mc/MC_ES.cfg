SPECIFICATION Spec
INVARIANT RelAgrees NumAgrees RelLaws
CHECK_DEADLOCK FALSE
