SPECIFICATION Spec
INVARIANT LiteralsAreInert CorpusLiteralsAreLiterals NearMissDiscipline DispatchAll NestedLiteralUntouched NestedInCollectionsUntouched LiteralCollectionsUntouched ExportCases
CHECK_DEADLOCK FALSE
