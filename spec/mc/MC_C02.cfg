SPECIFICATION Spec
INVARIANT LiteralsAreInert CorpusLiteralsAreLiterals NearMissDiscipline DispatchAll NestedLiteralUntouched NestedInCollectionsUntouched LiteralCollectionsUntouched IllFormedOperationIsNotALiteral DispatchedInEveryPosition BareOperandIsStillAnOperation ExportCases
CHECK_DEADLOCK FALSE
