SPECIFICATION Spec
INVARIANT LiteralsAreInert CorpusLiteralsAreLiterals NearMissDiscipline DispatchAll NestedLiteralUntouched ExportCases
CHECK_DEADLOCK FALSE
