SPECIFICATION Spec
INVARIANT LiteralsAreInert CorpusLiteralsAreLiterals NearMissDiscipline DispatchAll NestedLiteralUntouched NestedInCollectionsUntouched LiteralCollectionsUntouched IllFormedOperationIsNotALiteral DispatchedInEveryPosition ExportCases
CHECK_DEADLOCK FALSE
