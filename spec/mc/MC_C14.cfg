SPECIFICATION Spec
INVARIANT Quantifier NoneIsNotSome ShortCircuit StringsByCharacter ExportCases
CHECK_DEADLOCK FALSE
