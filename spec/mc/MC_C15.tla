------------------------------- MODULE MC_C15 -------------------------------
(***************************************************************************)
(* C15: merge flattens exactly one level; in is substring containment      *)
(* (both strings), deep structural membership with numerically equal       *)
(* numbers identified (arrays), false for null, an error otherwise.        *)
(***************************************************************************)
EXTENDS MCBase

M15 == Corpus("M15")
NE15 == Corpus("NE15")
HS15 == Corpus("HS15")
NM == Len(M15)
SS15 == Corpus("SS15")

VARIABLES c, phase
vars == <<c, phase>>

S_x == <<120>>
S_y == <<121>>
MaxLen == IF Deep THEN 4 ELSE 3
InFamily(x) ==
  \/ \E m \in 0..MaxLen : x \in [kind : {"merge"}, t : [1..m -> 1..NM], i : {0}, j : {0}]
  \/ x \in [kind : {"unary"}, t : {<<>>}, i : 1..NM, j : {0}]
  \/ x \in [kind : {"in", "invar"}, t : {<<>>}, i : 1..Len(NE15), j : 1..Len(HS15)]
  \/ x \in [kind : {"instr"}, t : {<<>>}, i : 1..Len(SS15), j : 1..Len(SS15)]

Vals(cc) == [q \in DOMAIN cc.t |-> M15[cc.t[q]]]
RuleOf(cc) ==
  CASE cc.kind = "merge" -> Op(K_merge, Vals(cc))
    [] cc.kind = "unary" -> IF M15[cc.i].t = "a" THEN Op(K_merge, <<M15[cc.i]>>) ELSE OpU(K_merge, M15[cc.i])
    [] cc.kind = "in" -> Op(K_in, <<NE15[cc.i], HS15[cc.j]>>)
    [] cc.kind = "invar" -> Op(K_in, <<VarOf(S_x), VarOf(S_y)>>)
    [] cc.kind = "instr" -> Op(K_in, <<SS15[cc.i], SS15[cc.j]>>)
DataOf(cc) == IF cc.kind = "invar" THEN Obj(<< <<S_x, NE15[cc.i]>>, <<S_y, HS15[cc.j]>> >>) ELSE Null

Init == InFamily(c) /\ phase = "new"
Next == phase = "new" /\ phase' = "done" /\ UNCHANGED c
Spec == Init /\ [][Next]_vars
Outcome(cc) == Eval(RuleOf(cc), DataOf(cc))

\* two distinct integers beyond 2^53 that are the same double are left open by the statement (none in this corpus)
Scope(cc) == <<"C15">>

RECURSIVE SumLen(_, _)
SumLen(vs, i) == IF i > Len(vs) THEN 0 ELSE (IF vs[i].t = "a" THEN Len(vs[i].v) ELSE 1) + SumLen(vs, i + 1)
\* -------- invariants on the specification
MergeLaws ==
  phase = "done" /\ c.kind = "merge" =>
    LET o == Outcome(c)
        vs == Vals(c)
    IN /\ o.ok /\ o.v.t = "a"
       /\ Len(o.v.v) = SumLen(vs, 1)
       \* order preserved, exactly one level: element by element
       /\ \A q \in DOMAIN vs :
            LET off == SumLen(SubSeq(vs, 1, q - 1), 1)
            IN IF vs[q].t = "a"
               THEN \A r \in DOMAIN vs[q].v : SameValue(o.v.v[off + r], vs[q].v[r])
               ELSE SameValue(o.v.v[off + 1], vs[q])
InLaws ==
  phase = "done" /\ c.kind \in {"in", "invar"} =>
    LET o == Outcome(c)
        n == NE15[c.i]
        h == HS15[c.j]
    IN CASE h.t = "z" -> o.ok /\ o.v = False
         [] h.t = "s" -> IF n.t = "s" THEN o.ok /\ o.v = Bool(IsSubSeq(n.v, h.v)) ELSE ~o.ok
         [] h.t = "a" -> o.ok /\ o.v = Bool(\E q \in DOMAIN h.v : DeepNumEq(n, h.v[q]))
         [] OTHER -> ~o.ok
SubstringLaw ==
  phase = "done" /\ c.kind = "instr" =>
    Outcome(c).ok /\ Outcome(c).v = Bool(IsSubSeq(SS15[c.i].v, SS15[c.j].v))
\* numerically equal numbers are the same element whatever their spelling
SpellingIrrelevant ==
  phase = "done" /\ c.kind = "in" /\ NE15[c.i].t = "n" /\ HS15[c.j].t = "a" =>
    \A i2 \in DOMAIN NE15 : (NE15[i2].t = "n" /\ FEq(F(NE15[i2]), F(NE15[c.i]))) =>
       Outcome(c).v = Outcome([c EXCEPT !.i = i2]).v
ExportCases ==
  phase = "done" => Export(<<c.kind, c.t, c.i, c.j>>, RuleOf(c), DataOf(c), Outcome(c), Scope(c), NoFlags)
=============================================================================
