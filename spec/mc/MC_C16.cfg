SPECIFICATION Spec
INVARIANT CatLaws SubstrLaws SplitLaw ExportCases
CHECK_DEADLOCK FALSE
