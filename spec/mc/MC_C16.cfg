SPECIFICATION Spec
INVARIANT CatLaws SubstrLaws SplitLaw CatNumRoundTrips ExportCases
CHECK_DEADLOCK FALSE
