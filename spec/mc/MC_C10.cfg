SPECIFICATION Spec
INVARIANT ResultShape ErrIffNonNumericOrNonFinite Laws RoundingIsNearestEven ExportCases
CHECK_DEADLOCK FALSE
