SPECIFICATION Spec
INVARIANT DenotationLaw ExportCases
CHECK_DEADLOCK FALSE
