SPECIFICATION FairSpec
PROPERTY CTermination
CHECK_DEADLOCK TRUE
