SPECIFICATION Spec
INVARIANT MissingIsVarAbsent MissingSomeCounts ExportCases
CHECK_DEADLOCK FALSE
