SPECIFICATION Spec
INVARIANT MissingIsVarAbsent MissingSomeCounts AgreesWithVarCorpus ExportCases
CHECK_DEADLOCK FALSE
