SPECIFICATION FairSpec
PROPERTY CliTermination
CHECK_DEADLOCK TRUE
