SPECIFICATION Spec
INVARIANT Laws ExportCases
CHECK_DEADLOCK FALSE
