------------------------------- MODULE MC_C01 -------------------------------
(***************************************************************************)
(* C01: evaluation is total - a value or an error, never a panic, abort,   *)
(* stack overflow or hang, in every build profile.                         *)
(* On the spec: every semantic function is total on JSON values (TLC would *)
(* stop with an error on a missing case or an out-of-range operand access: *)
(* the family puts every tag of value into every operand position of every *)
(* operator at every accepted count); termination / stack bound of the     *)
(* machine are checked in MC_Machine.                                      *)
(* Against the code: the same family, plus extreme scalars (64-bit and     *)
(* double boundaries, 4-byte characters) in every operand position, in     *)
(* three build profiles; any crash is a violation.                         *)
(***************************************************************************)
EXTENDS MCBase

EX01 == Corpus("EX01")
TG01 == Corpus("TG01")
D01 == Corpus("D01")
LONG01 == Corpus("LONG01")
\* pairs of extreme integers under every binary numeric / relational operator (e.g. i64::MIN with -1)
XP == <<IntV(-1), IntV(0), IntV(1), IntV(2), EX01[1], EX01[2], EX01[3], EX01[4], EX01[5], EX01[6], EX01[8], EX01[9]>>
PairOps == <<K_mod, K_div, K_sub, K_add, K_mul, K_min, K_max, K_lt, K_lte, K_eq, K_seq, K_in, K_substr, K_merge>>
LongOps == <<K_max, K_min, K_add, K_mul, K_sub, K_div, K_mod, K_eq, K_lt, K_gte, K_cat, K_in>>

VARIABLES c, phase
vars == <<c, phase>>

MaxN == 3
InFamily(x) ==
  \* extreme value x at position j of an otherwise benign operand list of length n
  \/ \E n \in 1..MaxN : x \in [kind : {"ext"}, k : {q \in 1..Len(OpSeq) : ArityOK(OpSeq[q], n)}, n : {n}, j : 1..n, v : 1..Len(EX01), d : 1..Len(D01)]
  \* every operand the same tag, all counts 0..4 (accepted or not)
  \/ x \in [kind : {"tag"}, k : 1..Len(OpSeq), n : 0..4, j : {0}, v : 1..Len(TG01), d : {4}]
  \* very long numeric strings (hundreds of digits in every radix) next to an ordinary operand
  \/ x \in [kind : {"long"}, k : 1..Len(LongOps), n : {2}, j : {1, 2}, v : 1..Len(LONG01), d : {1}]
  \/ x \in [kind : {"xpair"}, k : 1..Len(PairOps), n : {2}, j : 1..Len(XP), v : 1..Len(XP), d : {1}]
  \* extreme values as the DATA under index / key lookups
  \/ x \in [kind : {"data"}, k : {1}, n : {0}, j : 1..6, v : 1..Len(EX01), d : {1}]

RuleOf(cc) ==
  LET k == IF cc.kind \in {"long", "xpair"} THEN K_add ELSE OpSeq[cc.k] IN
  CASE cc.kind = "ext" -> Op(k, [q \in 1..cc.n |-> IF q = cc.j THEN EX01[cc.v] ELSE BenignAt(k, q, 1)])
    [] cc.kind = "tag" -> Op(k, [q \in 1..cc.n |-> TG01[cc.v]])
    [] cc.kind = "xpair" -> IF PairOps[cc.k] = K_substr THEN Op(K_substr, <<Str(<<104, 233, 108, 108, 111>>), XP[cc.j], XP[cc.v]>>)
                            ELSE Op(PairOps[cc.k], <<XP[cc.j], XP[cc.v]>>)
    [] cc.kind = "long" -> Op(LongOps[cc.k], IF cc.j = 1 THEN <<LONG01[cc.v], IntV(1)>> ELSE <<IntV(1), LONG01[cc.v]>>)
    [] cc.kind = "data" ->
         CASE cc.j = 1 -> Op(K_var, <<IntV(-1)>>)
           [] cc.j = 2 -> Op(K_var, <<Str(<<48>>)>>)
           [] cc.j = 3 -> Op(K_missing, <<IntV(0), Str(<<97, 46, 48>>)>>)
           [] cc.j = 4 -> Op(K_map, <<VarOf(<<>>), VarOf(<<>>)>>)
           [] cc.j = 5 -> Op(K_all, <<VarOf(<<>>), VarOf(<<>>)>>)
           [] cc.j = 6 -> Op(K_reduce, <<VarOf(<<>>), Op(K_add, <<VarOf(S_current), VarOf(S_accumulator)>>), VarOf(<<>>)>>)
DataOf(cc) == IF cc.kind = "data" THEN EX01[cc.v] ELSE D01[cc.d]

Init == InFamily(c) /\ phase = "new"
Next == phase = "new" /\ phase' = "done" /\ UNCHANGED c
Spec == Init /\ [][Next]_vars
Outcome(cc) == Eval(RuleOf(cc), DataOf(cc))

\* -------- invariants on the specification
\* totality: an outcome is always produced and it is well formed
Total == phase = "done" => LET o == Outcome(c) IN o.ok \in BOOLEAN /\ (o.ok => IsJson(o.v))
\* a rejected operand count is an error whatever the operands are
ArityStillEnforced == phase = "done" /\ c.kind = "tag" /\ ~ArityOK(OpSeq[c.k], c.n) => ~Outcome(c).ok
ExportCases ==
  phase = "done" =>
    Export(<<c.kind, c.k, c.n, c.j, c.v, c.d>>, RuleOf(c), DataOf(c), Outcome(c), <<"C01">>,
           \* C01 pins the outcome CLASS (a value or an error, never a crash); the value itself belongs to the operator's property
           [zlax |-> TRUE, logseq |-> FALSE, okonly |-> TRUE, own |-> OwnerOf(CASE c.kind = "long" -> LongOps[c.k] [] c.kind = "xpair" -> PairOps[c.k] [] OTHER -> OpSeq[c.k])])
=============================================================================
