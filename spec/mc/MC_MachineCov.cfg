SPECIFICATION CovSpec
INVARIANT Agreement ReportActs
CHECK_DEADLOCK FALSE
