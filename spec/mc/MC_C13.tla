------------------------------- MODULE MC_C13 -------------------------------
(***************************************************************************)
(* C13: map / filter / reduce - standard higher-order semantics, scoping   *)
(* (the element is the entire data; reduce sees exactly {current,          *)
(* accumulator}), null = empty, any other non-array collection = error.    *)
(***************************************************************************)
EXTENDS MCBase

CO13 == Corpus("CO13")
EX13 == Corpus("EX13")
RX13 == Corpus("RX13")
IN13 == Corpus("IN13")
D13 == Corpus("D13")

VARIABLES c, phase
vars == <<c, phase>>

InFamily(x) ==
  \/ x \in [op : {"map", "filter"}, co : 1..Len(CO13), ex : 1..Len(EX13), ini : {0}, d : 1..Len(D13)]
  \/ x \in [op : {"reduce"}, co : 1..Len(CO13), ex : 1..Len(RX13), ini : 1..Len(IN13), d : 1..Len(D13)]

RuleOf(cc) ==
  CASE cc.op = "map" -> Op(K_map, <<CO13[cc.co], EX13[cc.ex]>>)
    [] cc.op = "filter" -> Op(K_filter, <<CO13[cc.co], EX13[cc.ex]>>)
    [] cc.op = "reduce" -> Op(K_reduce, <<CO13[cc.co], RX13[cc.ex], IN13[cc.ini]>>)
DataOf(cc) == D13[cc.d]

Init == InFamily(c) /\ phase = "new"
Next == phase = "new" /\ phase' = "done" /\ UNCHANGED c
Spec == Init /\ [][Next]_vars

Outcome(cc) == Eval(RuleOf(cc), DataOf(cc))

\* an unparsable expression with an empty collection, and the order of the collection type check
\* relative to the initial value, are left open by the statement
Coll(cc) == EvL(CO13[cc.co], DataOf(cc))
ExprOf(cc) == IF cc.op = "reduce" THEN RX13[cc.ex] ELSE EX13[cc.ex]
Elems(cc) == IF Coll(cc).v.t = "a" THEN Coll(cc).v.v ELSE <<>>
Scope(cc) == IF Coll(cc).ok /\ Elems(cc) = <<>> /\ ~ParseOK(ExprOf(cc)) THEN <<>>
             ELSE IF cc.op = "reduce" /\ Coll(cc).ok /\ Coll(cc).v.t \notin {"a", "z"} /\ ~EvL(IN13[cc.ini], DataOf(cc)).ok THEN <<>>
             ELSE <<"C13">>

\* -------- invariants on the specification (independent formulations)
\* foldl from the right end: foldl(f, i, xs) = f(foldl(f, i, front(xs)), last(xs))
RECURSIVE FoldL(_, _, _)
FoldL(e, acc0, xs) ==
  IF xs = <<>> THEN Ok(acc0)
  ELSE LET r == FoldL(e, acc0, SubSeq(xs, 1, Len(xs) - 1))
       IN IF ~r.ok THEN Err
          ELSE LET x == Ev(e, ReduceCtx(xs[Len(xs)], r.v)) IN IF x.ok THEN Ok(x.v) ELSE Err
Laws ==
  phase = "done" =>
    LET o == Outcome(c)
        co == Coll(c)
        d == DataOf(c)
    IN /\ (~co.ok => ~o.ok)
       /\ (co.ok /\ co.v.t \notin {"a", "z"} => ~o.ok)
       /\ (co.ok /\ co.v.t \in {"a", "z"} /\ ParseOK(ExprOf(c)) =>
            LET el == Elems(c) IN
            CASE c.op = "map" ->
                   IF \A j \in DOMAIN el : Ev(EX13[c.ex], el[j]).ok
                   THEN o.ok /\ Len(o.v.v) = Len(el) /\ \A j \in DOMAIN el : SameValue(o.v.v[j], Ev(EX13[c.ex], el[j]).v)
                   ELSE ~o.ok
              [] c.op = "filter" ->
                   IF \A j \in DOMAIN el : Ev(EX13[c.ex], el[j]).ok
                   THEN LET keep == {j \in DOMAIN el : ~IsFalsy(Ev(EX13[c.ex], el[j]).v)} IN
                        /\ o.ok /\ Len(o.v.v) = Cardinality(keep)
                        \* an order-preserving sub-sequence of the original elements, unchanged
                        /\ \A q \in DOMAIN o.v.v :
                             \E j \in keep : Cardinality({i \in keep : i <= j}) = q /\ SameValue(o.v.v[q], el[j])
                   ELSE ~o.ok
              [] c.op = "reduce" ->
                   LET i0 == EvL(IN13[c.ini], d) IN
                   IF ~i0.ok THEN ~o.ok
                   ELSE LET f == FoldL(RX13[c.ex], i0.v, el) IN o.ok = f.ok /\ (o.ok => SameValue(o.v, f.v)))
ExportCases ==
  phase = "done" => Export(<<c.op, c.co, c.ex, c.ini, c.d>>, RuleOf(c), DataOf(c), Outcome(c), Scope(c), Flags(TRUE, TRUE))
=============================================================================
