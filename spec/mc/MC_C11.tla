------------------------------- MODULE MC_C11 -------------------------------
(***************************************************************************)
(* C11: var resolves dot paths (backslash escapes) through objects, arrays *)
(* and strings (by Unicode character), integer keys, negative indices;     *)
(* null / "" / no operand return the whole data; absent => default (else   *)
(* null); a present value - even null - beats the default; data off the    *)
(* path never matters (frame law).                                         *)
(***************************************************************************)
EXTENDS MCBase

T11 == Corpus("T11")
K11 == Corpus("K11")
DF11 == Corpus("DF11")
KE11 == Corpus("KE11")

VARIABLES c, phase
vars == <<c, phase>>

\* forms: 1 {"var":[k]}  2 {"var":[k, default]}  3 {"var": k} (bracket-less)  4 no operand  5 computed key  6 extended data (frame)
InFamily(x) ==
  \/ x \in [form : {1, 3, 6}, t : 1..Len(T11), k : 1..Len(K11), df : {0}]
  \/ x \in [form : {2}, t : 1..Len(T11), k : 1..Len(K11), df : 1..Len(DF11)]
  \/ x \in [form : {4}, t : 1..Len(T11), k : {0}, df : {0}]
  \/ x \in [form : {5}, t : 1..Len(T11), k : 1..Len(KE11), df : {0, 2}]

KeyOfCase(cc) == IF cc.form = 5 THEN KE11[cc.k] ELSE K11[cc.k]
S_zz == <<1114111, 115, 105, 98>>     \* U+10FFFF "sib": sorts after every corpus key
\* the data extended with a sibling that no path names
Extended(d) == IF d.t = "o" THEN Obj(Append(d.v, <<S_zz, Arr(<<Str(S_zz), d>>)>>)) ELSE d
DataOf(cc) == IF cc.form = 6 THEN Extended(T11[cc.t]) ELSE T11[cc.t]
RuleOf(cc) ==
  CASE cc.form \in {1, 6} -> Op(K_var, <<K11[cc.k]>>)
    [] cc.form = 2 -> Op(K_var, <<K11[cc.k], DF11[cc.df]>>)
    [] cc.form = 3 -> IF K11[cc.k].t = "a" THEN Op(K_var, <<K11[cc.k]>>) ELSE OpU(K_var, K11[cc.k])
    [] cc.form = 4 -> Op(K_var, <<>>)
    [] cc.form = 5 -> IF cc.df = 0 THEN Op(K_var, <<KE11[cc.k]>>) ELSE Op(K_var, <<KE11[cc.k], DF11[cc.df]>>)

Init == InFamily(c) /\ phase = "new"
Next == phase = "new" /\ phase' = "done" /\ UNCHANGED c
Spec == Init /\ [][Next]_vars

Outcome(cc) == Eval(RuleOf(cc), DataOf(cc))

\* the key value actually used (for computed keys: as evaluated by the specification)
UsedKey(cc) == IF cc.form = 4 THEN Null
               ELSE IF cc.form = 5 THEN Eval(KE11[cc.k], DataOf(cc)).v ELSE K11[cc.k]
Scope(cc) == IF PinnedKeyOn(UsedKey(cc), DataOf(cc)) THEN <<"C11">> ELSE <<>>

\* -------- invariants on the specification
PresentBeatsDefault ==
  phase = "done" /\ c.form = 2 /\ PinnedKeyOn(K11[c.k], DataOf(c)) =>
    LET r == Lookup(DataOf(c), K11[c.k])
        o == Outcome(c)
    IN o.ok /\ SameValue(o.v, IF r.found THEN r.v ELSE Eval(DF11[c.df], DataOf(c)).v)   \* the default is an expression, evaluated once
AbsentIsNull ==
  phase = "done" /\ c.form = 1 /\ PinnedKeyOn(K11[c.k], DataOf(c)) =>
    LET r == Lookup(DataOf(c), K11[c.k])
        o == Outcome(c)
    IN o.ok /\ SameValue(o.v, IF r.found THEN r.v ELSE Null)
WholeData ==
  phase = "done" /\ (c.form = 4 \/ (c.form \in {1, 2, 3} /\ (K11[c.k].t = "z" \/ K11[c.k] = Str(<<>>)))) =>
    Outcome(c).ok /\ SameValue(Outcome(c).v, DataOf(c))
\* frame law: a sibling that no path names never influences the result (unless the whole data is returned)
FrameLaw ==
  phase = "done" /\ c.form = 6 /\ PinnedKey(K11[c.k]) /\ ~(K11[c.k].t = "z" \/ K11[c.k] = Str(<<>>)) =>
    LET a == Outcome(c)
        b == Eval(RuleOf(c), T11[c.t])
    IN a.ok = b.ok /\ SameValue(a.v, b.v)
\* strings are indexed by character: a hit is always a one-character string of the data string
StringIndexIsCharacter ==
  phase = "done" /\ c.form = 1 /\ DataOf(c).t = "s" /\ K11[c.k].t = "n" /\ K11[c.k].k = "i" =>
    LET o == Outcome(c) IN o.ok /\ (o.v.t = "z" \/ (o.v.t = "s" /\ Len(o.v.v) = 1 /\ \E j \in DOMAIN DataOf(c).v : DataOf(c).v[j] = o.v.v[1]))
ExportCases ==
  phase = "done" => Export(<<c.form, c.t, c.k, c.df>>, RuleOf(c), DataOf(c), Outcome(c), Scope(c), NoFlags)
=============================================================================
