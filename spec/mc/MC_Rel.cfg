SPECIFICATION Spec
INVARIANT RuleEqualsRelation Laws Between StrictImpliesLoose SameVarNeverStrictlyEqualContainers ExportCases
CHECK_DEADLOCK FALSE
