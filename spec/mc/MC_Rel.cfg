SPECIFICATION Spec
INVARIANT RuleEqualsRelation Laws Between SameVarNeverStrictlyEqualContainers ExportCases
CHECK_DEADLOCK FALSE
