SPECIFICATION Spec
INVARIANT MergeLaws InLaws SpellingIrrelevant ExportCases
CHECK_DEADLOCK FALSE
