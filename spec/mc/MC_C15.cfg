SPECIFICATION Spec
INVARIANT MergeLaws InLaws SubstringLaw SpellingIrrelevant ExportCases
CHECK_DEADLOCK FALSE
