----------------------------- MODULE MC_Machine -----------------------------
(***************************************************************************)
(* The small-step machine model-checked over bounded families:             *)
(*   C05  if / ?: / and / or x operand lists over a symbol alphabet whose  *)
(*        log probes carry their position (the log sequence IS the         *)
(*        evaluation order), eval- and parse-poisons, data references      *)
(*   C04  rules over data that holds rule-shaped markers                   *)
(*   C13 / C14  map filter reduce / all some none families                 *)
(* Invariants: Agreement with the big-step semantics, ControlFromRuleText, *)
(* AtMostOncePerUse, OnlyNeeded, StackBound, InputsImmutable, well-formed  *)
(* results; Termination under weak fairness (separate config).             *)
(***************************************************************************)
EXTENDS Machine, Json, IOUtils, TLCExt

CorpusDir == IOEnv.VERIF_CORPUS
Corpus(name) == ndJsonDeserialize(CorpusDir \o "/" \o name \o ".ndjson")
Fam == IOEnv.VERIF_FAMILY
Deep == IOEnv.VERIF_TIER = "thorough"

VARIABLE c
vars == <<c, rule, data, phase, stack, ret, out, evals, dup>>

\* ---------------- C05 alphabet
Zf(s, x) == [t |-> "n", k |-> "f", s |-> s, m |-> <<>>, e |-> 0, x |-> x]
FalsyVals == <<IntV(0), Zf(0, <<48, 46, 48>>), Zf(1, <<45, 48, 46, 48>>), Str(<<>>), Arr(<<>>), False, Null>>
\* truthy values of every kind: strings ("T1", "0"), the smallest positive double 5e-324, [0], {}, -1, [[]]
Tiny == [t |-> "n", k |-> "f", s |-> 0, m |-> <<1>>, e |-> -1074, x |-> <<53, 101, 45, 51, 50, 52>>]
TruthyVals == <<Str(<<84, 49>>), Tiny, Arr(<<IntV(0)>>), Str(<<48>>), Obj(<<>>), IntV(-1), Arr(<<Arr(<<>>)>>)>>
PKey(i) == <<112, 48 + i>>
D05 == Obj(<< <<PKey(1), Str(<<120>>)>>, <<PKey(2), IntV(0)>>, <<PKey(3), Arr(<<IntV(1)>>)>>, <<PKey(4), Null>>,
              <<PKey(5), Str(<<>>)>>, <<PKey(6), Obj(<<>>)>>, <<PKey(7), False>> >>)
Sym(s, i) ==
  CASE s = 1 -> Op(K_log, <<TruthyVals[i]>>)                              \* truthy probe (distinct truthy value per position)
    [] s = 2 -> Op(K_log, <<FalsyVals[i]>>)                               \* falsy probe (distinct falsy value per position)
    [] s = 3 -> Op(K_add, <<Str(<<120>>)>>)                               \* eval-poison
    [] s = 4 -> Op(K_eq, <<IntV(1)>>)                                     \* parse-poison
    [] s = 5 -> VarOf(PKey(i))                                            \* data reference, truthiness depends on position
    [] s = 6 -> IntV(i)                                                   \* truthy literal
    [] s = 7 -> FalsyVals[i]                                              \* falsy literal
    [] s = 8 -> Op(K_and, <<Op(K_log, <<Str(<<78, 48 + i>>)>>), IntV(0)>>)   \* nested control flow: logs, yields 0
CtlOps == <<K_if, K_tern, K_and, K_or>>
NSym == IF Deep THEN 8 ELSE 5
MaxLen5 == 5
\* quick: 5 symbols to length 4 plus lengths 5..7 without the poisons' siblings; thorough: 8 symbols to length 5, 5 symbols to 7
Lists05 ==
  [o : 1..4, syms : UNION {[1..m -> 1..NSym] : m \in 0..MaxLen5}]
Lists05Long ==
  [o : 1..4, syms : UNION {[1..m -> {1, 2, 3}] : m \in (MaxLen5 + 1)..(IF Deep THEN 7 ELSE 6)}]
\* else-if CHAINS (session 5): if [a.., if' [b.., if [c..]]] - a nested `if` in the LAST position of its parent
\* (the else position when the parent's prefix is even, a then-value or a lone operand otherwise). Prefixes of 0..2
\* truthy / falsy probes, the innermost list of 0..3 operands over truthy probe / falsy probe / parse-poison; the
\* outer and the middle link use the two aliases crosswise. What an implementation that flattens or splices
\* else-if ladders gets wrong shows here: which operands are entered, in which order, and what is returned.
Leaf05(s, pos) == Sym(IF s = 3 THEN 4 ELSE s, pos)
Chains05 ==
  [o : 1..2, a : UNION {[1..k -> 1..2] : k \in 0..2}, b : UNION {[1..k -> 1..2] : k \in 0..2},
   cc : UNION {[1..n -> 1..3] : n \in 0..3}]
ChainRule(x) ==
  LET inner == Op(K_if, [j \in DOMAIN x.cc |-> Leaf05(x.cc[j], 4 + j)])
      mid == Op(CtlOps[3 - x.o], [j \in DOMAIN x.b |-> Leaf05(x.b[j], 2 + j)] \o <<inner>>)
  IN Op(CtlOps[x.o], [j \in DOMAIN x.a |-> Leaf05(x.a[j], j)] \o <<mid>>)
Rule05(cc) == IF "syms" \in DOMAIN cc THEN Op(CtlOps[cc.o], [j \in DOMAIN cc.syms |-> Sym(cc.syms[j], j)]) ELSE ChainRule(cc)

\* ---------------- corpus-driven families
R04 == Corpus("R04")
D04 == Corpus("D04")
CO13 == Corpus("CO13")
EX13 == Corpus("EX13")
RX13 == Corpus("RX13")
IN13 == Corpus("IN13")
D13 == Corpus("D13")
CO14 == Corpus("CO14")
PR14 == Corpus("PR14")
D14 == Corpus("D14")
QOps == <<K_all, K_some, K_none>>

InFamily(x) ==
  CASE Fam = "C05" -> x \in Lists05 \/ x \in Lists05Long \/ x \in Chains05
    [] Fam = "C04" -> x \in [r : 1..Len(R04), d : 1..Len(D04)]
    [] Fam = "C13" -> \/ x \in [op : {"map", "filter"}, co : 1..Len(CO13), ex : 1..Len(EX13), ini : {0}, d : {1}]
                      \/ x \in [op : {"reduce"}, co : {1, 3, 6, 8, 10, 12, 15}, ex : 1..Len(RX13), ini : {1, 4, 6, 8}, d : {1}]
    [] Fam = "C14" -> x \in [q : 1..3, co : 1..Len(CO14), pr : 1..Len(PR14), d : {1, 3}]
    \* a small cross-section of all families, used for the action-coverage report of bin/selftest
    [] Fam = "COV" -> \/ x \in [o : 1..4, syms : {<<1, 2, 5>>, <<2, 1>>, <<5, 3>>}]
                      \/ x \in [r : {1, 2, 6, 8, 10, 15, 16, 17, 28}, d : {1}]
                      \/ x \in [op : {"map", "filter"}, co : {1, 8, 10}, ex : {1, 3}, ini : {0}, d : {1}]
                      \/ x \in [op : {"reduce"}, co : {1, 8}, ex : {1}, ini : {1, 4}, d : {1}]
                      \/ x \in [q : 1..3, co : {1, 4, 15, 18, 26}, pr : {1, 3}, d : {1}]

KindOf(cc) == IF Fam # "COV" THEN Fam
              ELSE IF "syms" \in DOMAIN cc THEN "C05" ELSE IF "r" \in DOMAIN cc THEN "C04"
              ELSE IF "op" \in DOMAIN cc THEN "C13" ELSE "C14"
RuleOf(cc) ==
  CASE KindOf(cc) = "C05" -> Rule05(cc)
    [] KindOf(cc) = "C04" -> R04[cc.r]
    [] KindOf(cc) = "C13" -> (CASE cc.op = "map" -> Op(K_map, <<CO13[cc.co], EX13[cc.ex]>>)
                         [] cc.op = "filter" -> Op(K_filter, <<CO13[cc.co], EX13[cc.ex]>>)
                         [] cc.op = "reduce" -> Op(K_reduce, <<CO13[cc.co], RX13[cc.ex], IN13[cc.ini]>>))
    [] KindOf(cc) = "C14" -> Op(QOps[cc.q], <<CO14[cc.co], PR14[cc.pr]>>)
DataOf(cc) ==
  CASE KindOf(cc) = "C05" -> D05
    [] KindOf(cc) = "C04" -> D04[cc.d]
    [] KindOf(cc) = "C13" -> D13[cc.d]
    [] KindOf(cc) = "C14" -> D14[cc.d]

Init == /\ InFamily(c)
        /\ rule = RuleOf(c) /\ data = DataOf(c) /\ phase = "run"
        /\ stack = <<EvalF(RuleOf(c), <<>>, DataOf(c), <<>>, TRUE)>>
        /\ ret = None /\ out = <<>> /\ evals = {} /\ dup = FALSE
Next == MNext /\ UNCHANGED c
Spec == Init /\ [][Next]_vars
FairSpec == Spec /\ WF_vars(Step /\ UNCHANGED c)

\* ---------------- family-specific properties
\* C05: ?: is if (same behaviour under both names); results are operand values
TernIsIf ==
  KindOf(c) = "C05" /\ phase = "done" /\ c.o = 2 =>
    LET a == Eval(rule, data)
        b == Eval(Rule05([c EXCEPT !.o = 1]), data)
    IN a.ok = b.ok /\ (a.ok => SameValue(a.v, b.v)) /\ a.log = b.log
\* C05: the log sequence of a control-flow rule is exactly the big-step one (lazy operators pin the order)
ExactLogOrder ==
  KindOf(c) \in {"C05", "C13", "C14"} /\ phase = "done" => out = Eval(rule, data).log
\* C04: no data-resident marker is ever executed: the LEAK line is never printed, the secret never read through a marker
S_LEAK == <<76, 69, 65, 75>>
NoLeak == KindOf(c) = "C04" => \A j \in DOMAIN out : ~SameValue(out[j], Str(S_LEAK))

\* ---------------- export (direction A): one line per terminal state
CaseLine(id, r, d, okv, v, lg, sc, fl) ==
  ToJson([id |-> id, rule |-> r, data |-> d, exp |-> [ok |-> okv, v |-> v, log |-> lg], sc |-> sc, fl |-> fl]) \o "\n"
\* the log order is pinned unless some eager operator has two or more operands (then any operand order is admissible)
RECURSIVE OrderPinned(_)
OrderPinned(r) ==
  IF ~IsOperation(r) \/ ~HeadOK(r) THEN TRUE
  ELSE /\ (KeyOf(r) \in EagerOps \cup DataOps => Len(Operands(r)) <= 1)
       /\ \A j \in DOMAIN Operands(r) : OrderPinned(Operands(r)[j])
ExportCases ==
  phase = "done" =>
    Serialize(CaseLine(c, rule, data, ret.ok, ret.v, out, <<Fam>>, [zlax |-> TRUE, logseq |-> OrderPinned(rule)]),
              IOEnv.VERIF_CASES,
              [format |-> "TXT", charset |-> "UTF-8", openOptions |-> <<"WRITE", "CREATE", "APPEND">>]).exitValue = 0
=============================================================================
