SPECIFICATION Spec
INVARIANT OnlySerialisation DefaultsAndCallables ExportScenarios
CHECK_DEADLOCK TRUE
