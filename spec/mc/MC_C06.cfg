SPECIFICATION Spec
INVARIANT TableAgreement PositionsFollowTable NegationExact ExportCases
CHECK_DEADLOCK FALSE
