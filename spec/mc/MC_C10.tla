------------------------------- MODULE MC_C10 -------------------------------
(***************************************************************************)
(* C10: arithmetic yields the exact IEEE-754 double of the JavaScript-style*)
(* conversions, spelled as an integer when integral and within 64 bits, or *)
(* an error - exactly when an operand is non-numeric or the result is not  *)
(* finite.  Family: operand tuples of length 0..5 over the numeric corpus  *)
(* for + * min max, pairs for - / %, one operand for -, through the rule   *)
(* interface and through the public js_op helpers.                         *)
(***************************************************************************)
EXTENDS MCBase

N10 == Corpus("N10")
S10 == Corpus("S10")
M10 == Corpus("M10")
NN == Len(N10)
NS == Len(S10)
NM == Len(M10)

VARIABLES c, phase
vars == <<c, phase>>

Variadic == <<K_add, K_mul, K_max, K_min>>
Binary == <<K_sub, K_div, K_mod>>

\* operand tuples are sequences of indices into one of the corpora
Tuples(n, m) == [1..m -> 1..n]
\* the family, as the disjuncts of Init (big set unions are quadratic in TLC)
D(kind, os, src, ts) == {[kind |-> kind, o |-> o, src |-> src, t |-> t] : o \in os, t \in ts}
InFamily(x) ==
  \/ x \in D("var", 1..4, "N", Tuples(NN, 0))
  \/ x \in D("var", 1..4, "N", Tuples(NN, 1))
  \/ x \in D("var", 1..4, "N", Tuples(NN, 2))
  \/ x \in D("var", 1..4, "S", Tuples(NS, 3))
  \/ x \in D("var", 1..4, "M", Tuples(NM, 4))
  \/ (Deep /\ x \in D("var", 1..4, "M", Tuples(NM, 5)))
  \/ x \in D("bin", 1..3, "N", Tuples(NN, 2))
  \/ x \in D("neg", {1}, "N", Tuples(NN, 1))
  \/ x \in D("hconv", 1..3, "N", Tuples(NN, 1))
  \/ x \in D("hbin", 1..4, "N", Tuples(NN, 2))
  \/ x \in D("hfold", 1..4, "S", Tuples(NS, 2))

Vals(cc) == LET C == CASE cc.src = "N" -> N10 [] cc.src = "S" -> S10 [] cc.src = "M" -> M10
            IN [j \in DOMAIN cc.t |-> C[cc.t[j]]]
OpOf(cc) == CASE cc.kind = "var" -> Variadic[cc.o]
              [] cc.kind = "bin" -> Binary[cc.o]
              [] cc.kind = "neg" -> K_sub
              [] OTHER -> K_add
RuleOf(cc) == IF cc.kind \in {"var", "bin", "neg"} THEN Op(OpOf(cc), Vals(cc)) ELSE Null

HelperName(cc) ==
  CASE cc.kind = "hconv" -> <<"parse_float", "to_number", "to_negative">>[cc.o]
    [] cc.kind = "hbin" -> <<"abstract_minus", "abstract_div", "abstract_mod", "abstract_plus">>[cc.o]
    [] cc.kind = "hfold" -> <<"parse_float_add", "parse_float_mul", "abstract_max", "abstract_min">>[cc.o]
\* js_op::abstract_plus: numbers (null, booleans, numbers) add; anything else concatenates string forms
AbstractPlus(a, b) ==
  IF Prim(a).k = "num" /\ Prim(b).k = "num"
  THEN LET r == FAdd(Prim(a).f, Prim(b).f) IN IF r.k = "fin" THEN FloatNum(r) ELSE Null   \* non-finite: JSON renders null
  ELSE Str(ToStringJS(a) \o ToStringJS(b))
HelperOutcome(cc) ==
  LET vs == Vals(cc) IN
  CASE cc.kind = "hconv" /\ cc.o = 1 -> OptF(ParseFloatV(vs[1]))
    [] cc.kind = "hconv" /\ cc.o = 2 -> OptF(ToNumber(vs[1]))
    [] cc.kind = "hconv" /\ cc.o = 3 -> OptF(FNeg(ToNumber(vs[1])))
    [] cc.kind = "hbin" /\ cc.o \in {1, 2, 3} ->
         LET a == ToNumber(vs[1])
             b == ToNumber(vs[2])
         IN IF a.k = "nan" \/ b.k = "nan" THEN Fail(<<>>)
            ELSE R(TRUE, FVal(CASE cc.o = 1 -> FSub(a, b) [] cc.o = 2 -> FDiv(a, b) [] cc.o = 3 -> FRem(a, b)), <<>>)
    [] cc.kind = "hbin" /\ cc.o = 4 -> R(TRUE, AbstractPlus(vs[1], vs[2]), <<>>)
    [] cc.kind = "hfold" /\ cc.o \in {1, 2} ->
         LET fs == [j \in DOMAIN vs |-> ParseFloatV(vs[j])]
         IN IF AnyNaN(fs) THEN Fail(<<>>)
            ELSE R(TRUE, FVal(FoldF(IF cc.o = 1 THEN "add" ELSE "mul", fs, 1, IF cc.o = 1 THEN FZero ELSE FOne)), <<>>)
    [] cc.kind = "hfold" /\ cc.o \in {3, 4} ->
         LET fs == [j \in DOMAIN vs |-> ToNumber(vs[j])]
         IN IF AnyNaN(fs) THEN Fail(<<>>)
            ELSE R(TRUE, FVal(IF cc.o = 3 THEN FoldMax(fs, 1, NInf) ELSE FoldMin(fs, 1, PInf)), <<>>)

IsHelper(cc) == cc.kind \in {"hconv", "hbin", "hfold"}
Outcome(cc) == IF IsHelper(cc) THEN HelperOutcome(cc) ELSE Eval(RuleOf(cc), Null)

Init == InFamily(c) /\ phase = "new"
Next == phase = "new" /\ phase' = "done" /\ UNCHANGED c
Spec == Init /\ [][Next]_vars

RECURSIVE Disputed(_)
Disputed(v) == CASE v.t = "s" -> HasDisputedWS(v.v)
                 [] v.t = "a" -> \E q \in DOMAIN v.v : Disputed(v.v[q])
                 [] OTHER -> FALSE
\* abstract_plus's number text for non-integral sums is not known to the specification
Scope(cc) == IF cc.kind = "hbin" /\ cc.o = 4 THEN <<>>      \* no statement pins abstract_plus's value; a crash is always C01
             ELSE <<"C10">>

\* -------- invariants on the specification
\* the result, when there is one, is a number equal to the double computed, spelled by the 64-bit rule
ResultShape ==
  phase = "done" /\ ~IsHelper(c) =>
    LET o == Outcome(c) IN
    o.ok => /\ o.v.t = "n"
            /\ (o.v.k = "i" <=> (IsIntegral(F(o.v)) /\ (FitsI64(F(o.v)) \/ FitsU64(F(o.v)))))
            /\ (o.v.k = "i" => F(o.v) = Canon(o.v.s, o.v.m, 0))    \* the integer is exactly the double
ErrIffNonNumericOrNonFinite ==
  phase = "done" /\ c.kind \in {"var", "bin", "neg"} =>
    LET vs == Vals(c)
        k == OpOf(c)
        conv == [j \in DOMAIN vs |-> IF k \in {K_add, K_mul} THEN ParseFloatV(vs[j]) ELSE ToNumber(vs[j])]
        res == CASE k = K_add -> FoldF("add", conv, 1, FZero)
                 [] k = K_mul -> FoldF("mul", conv, 1, FOne)
                 [] k = K_max -> FoldMax(conv, 1, NInf)
                 [] k = K_min -> FoldMin(conv, 1, PInf)
                 [] k = K_sub -> IF Len(vs) = 1 THEN FNeg(conv[1]) ELSE FSub(conv[1], conv[2])
                 [] k = K_div -> FDiv(conv[1], conv[2])
                 [] k = K_mod -> FRem(conv[1], conv[2])
    IN IF Len(vs) = 0 /\ k # K_add THEN ~Outcome(c).ok      \* arity
       ELSE (~Outcome(c).ok <=> (AnyNaN(conv) \/ res.k # "fin"))
Laws ==
  phase = "done" =>
    /\ (c.kind = "var" /\ c.o = 1 /\ Len(c.t) = 0 => SameValue(Outcome(c).v, IntV(0)))
    /\ (c.kind = "var" /\ c.o = 2 /\ Len(c.t) = 1 =>
          LET p == ParseFloatV(Vals(c)[1]) IN
          IF p.k = "fin" THEN Outcome(c).ok /\ FEq(F(Outcome(c).v), p) ELSE ~Outcome(c).ok)
    /\ (c.kind = "neg" =>
          LET p == ToNumber(Vals(c)[1]) IN
          IF p.k = "fin" THEN Outcome(c).ok /\ FEq(F(Outcome(c).v), FNeg(p)) ELSE ~Outcome(c).ok)
\* the rounding algorithm agrees with the declarative definition of round-to-nearest-even
RoundingIsNearestEven ==
  phase = "done" /\ c.kind = "hbin" /\ c.o = 1 =>
    LET a == ToNumber(Vals(c)[1])
        b == ToNumber(Vals(c)[2])
    IN (a.k = "fin" /\ b.k = "fin" /\ ~IsZero(a) /\ ~IsZero(b)) =>
         /\ LET p == FMul(a, b) IN NearestEven(BMul(a.m, b.m), a.e + b.e, p)
         /\ (a.s = b.s => LET e == IF a.e < b.e THEN a.e ELSE b.e
                              s == FAdd(a, b)
                          IN NearestEven(BAdd(Shl(a.m, a.e - e), Shl(b.m, b.e - e)), e, s))
ExportCases ==
  phase = "done" =>
    IF IsHelper(c)
    THEN ExportLine(ToJson([id |-> <<c.kind, c.o, c.t>>, fn |-> HelperName(c), args |-> Vals(c), rule |-> Null, data |-> Null,
                            exp |-> [ok |-> Outcome(c).ok, v |-> Outcome(c).v, log |-> <<>>], sc |-> Scope(c),
                            fl |-> Flags(FALSE, FALSE)]) \o "\n")
    ELSE Export(<<c.kind, c.o, c.src, c.t>>, RuleOf(c), Null, Outcome(c), Scope(c), Flags(TRUE, FALSE))
=============================================================================
