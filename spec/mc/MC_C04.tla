------------------------------- MODULE MC_C04 -------------------------------
(***************************************************************************)
(* C04, substitution law: replacing the operands of an eager operator by   *)
(* references to their precomputed values never changes the result:        *)
(*   apply({k:[a1..an]}, d) = apply({k:[{var:0}..{var:n-1}]}, [v1..vn])    *)
(* where vi = apply(ai, d).  Values read from data are inert even when     *)
(* they look like operations (the operand corpus yields rule-shaped data). *)
(***************************************************************************)
EXTENDS MCBase

OPS04 == Corpus("OPS04")
SUBD04 == Corpus("SUBD04")
NO == Len(OPS04)
EagerSeq == <<K_eq, K_ne, K_seq, K_sne, K_not, K_notnot, K_lt, K_lte, K_gt, K_gte, K_add, K_sub, K_mul, K_div, K_mod,
              K_max, K_min, K_merge, K_in, K_cat, K_substr, K_log>>

VARIABLES c, phase
vars == <<c, phase>>

\* operand tuples of every length the operator accepts (up to 3)
Sub3 == IF Deep THEN 1..NO ELSE {1, 2, 3, 5, 9, 10}
InFamily(x) ==
  \/ \E n \in 0..2 : x \in [k : {q \in 1..Len(EagerSeq) : ArityOK(EagerSeq[q], n)}, t : [1..n -> 1..NO], form : {1, 2}]
  \/ x \in [k : {q \in 1..Len(EagerSeq) : ArityOK(EagerSeq[q], 3)}, t : [1..3 -> Sub3], form : {1, 2}]

D0 == SUBD04[1]
Args(cc) == [j \in DOMAIN cc.t |-> OPS04[cc.t[j]]]
\* the operands' values, computed by the specification
ArgVals(cc) == [j \in DOMAIN cc.t |-> Eval(Args(cc)[j], D0)]
AllArgsOk(cc) == \A j \in DOMAIN cc.t : ArgVals(cc)[j].ok
Direct(cc) == Op(EagerSeq[cc.k], Args(cc))
Substituted(cc) == Op(EagerSeq[cc.k], [j \in DOMAIN cc.t |-> Op(K_var, <<IntV(j - 1)>>)])
SubstData(cc) == Arr([j \in DOMAIN cc.t |-> ArgVals(cc)[j].v])

RuleOf(cc) == IF cc.form = 1 THEN Direct(cc) ELSE Substituted(cc)
DataOf(cc) == IF cc.form = 1 THEN D0 ELSE SubstData(cc)

Init == InFamily(c) /\ phase = "new"
Next == phase = "new" /\ phase' = "done" /\ UNCHANGED c
Spec == Init /\ [][Next]_vars
Outcome(cc) == Eval(RuleOf(cc), DataOf(cc))

\* -------- invariants on the specification
SubstitutionLaw ==
  phase = "done" /\ c.form = 1 /\ AllArgsOk(c) =>
    LET a == Outcome(c)
        b == Outcome([c EXCEPT !.form = 2])
    IN a.ok = b.ok /\ (a.ok => SameValue(a.v, b.v))
S_LEAK == <<76, 69, 65, 75>>
\* a data-resident log marker is never executed: the only log lines are those of rule-text log operators
NoMarkerExecuted ==
  phase = "done" => \A j \in DOMAIN Outcome(c).log :
                       ~SameValue(Outcome(c).log[j], Str(S_LEAK)) \/ EagerSeq[c.k] = K_log
ExportCases ==
  phase = "done" /\ AllArgsOk(c) =>
    Export(<<c.k, c.t, c.form>>, RuleOf(c), DataOf(c), Outcome(c), <<"C04">>, Flags(TRUE, FALSE))
=============================================================================
