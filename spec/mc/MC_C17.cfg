SPECIFICATION Spec
INVARIANT HistoryIndependent InputsUntouched WholeLinesInOrder AllLinesWritten ResultsFunctionOfProgramsOnly ExportHistories
PROPERTY InputsImmutableC
CHECK_DEADLOCK TRUE
