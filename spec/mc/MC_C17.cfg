SPECIFICATION Spec
INVARIANT HistoryIndependent InputsUntouched WholeLinesInOrder AllLinesWritten ResultsFunctionOfProgramsOnly ExportHistories
PROPERTY InputsImmutableC RefinesProvedProtocol
CHECK_DEADLOCK TRUE
