SPECIFICATION Spec
INVARIANT Agreement ControlFromRuleText AtMostOncePerUse StackBound ResultsWellFormed OnlyNeeded TernIsIf ExactLogOrder NoLeak ExportCases
PROPERTY InputsImmutable
CHECK_DEADLOCK TRUE
