SPECIFICATION Spec
INVARIANT Agreement ControlFromRuleText AtMostOncePerUse StackBound ResultsWellFormed OnlyNeeded TernIsIf ExactLogOrder NoLeak ExportCases
PROPERTY InputsImmutable LogAppendOnly ErrorsOnlyUnwind StackDiscipline HistoryGrows DoneIsFinal RetConsumed
CHECK_DEADLOCK TRUE
