------------------------------- MODULE MC_C02 -------------------------------
(***************************************************************************)
(* C02: a value is an operation iff it is a single-key object whose key is *)
(* one of the 35 operator names; everything else is a literal returned     *)
(* structurally identical, nothing inside it evaluated.                    *)
(* Family: literals incl. near-miss keys (corpus L2) x data; near-miss     *)
(* transforms of all 35 names computed here; dispatch of all 35 names.     *)
(***************************************************************************)
EXTENDS MCBase

L2 == Corpus("L2")
D2 == Corpus("D2")
A2 == Corpus("A2")

VARIABLES c, phase
vars == <<c, phase>>

Upper(ch) == IF ch >= 97 /\ ch <= 122 THEN ch - 32 ELSE ch
\* near-miss transforms of an operator name
NTransforms == 12
Transform(k, t) ==
  CASE t = 1 -> SubSeq(k, 1, Len(k) - 1)              \* drop last char
    [] t = 2 -> Append(k, 120)                          \* append 'x'
    [] t = 3 -> Append(k, 32)                           \* trailing space
    [] t = 4 -> <<32>> \o k                             \* leading space
    [] t = 5 -> [j \in DOMAIN k |-> Upper(k[j])]        \* upper case
    [] t = 6 -> [j \in DOMAIN k |-> IF j = 1 THEN Upper(k[j]) ELSE k[j]]   \* title case
    [] t = 7 -> Append(k, 9)                            \* trailing tab
    [] t = 8 -> <<160>> \o k                            \* leading NBSP
    [] t = 9 -> k \o k                                  \* doubled
    [] t = 10 -> Tail(k)                                \* drop first char
    [] t = 11 -> Append(k, 0)                           \* trailing NUL
    [] t = 12 -> <<k[1]>>                               \* first char only

\* benign operand list for dispatching each operator (index into A2)
BenignIdx(k) ==
  CASE k \in {K_map, K_filter, K_all, K_some, K_none} -> 3
    [] k = K_in -> 4
    [] k \in {K_if, K_tern} -> 5
    [] k \in {K_not, K_notnot, K_log} -> 6
    [] k = K_reduce -> 7
    [] k = K_substr -> 8
    [] k = K_missing_some -> 9
    [] OTHER -> 1

Bare2 == <<IntV(5), Str(<<97, 98, 99>>), Null, True, Obj(<<>>), Obj(<< <<<<97>>, IntV(1)>> >>)>>
Family ==
       [kind : {"lit"}, i : 1..Len(L2), d : 1..Len(D2), t : {0}]
  \cup [kind : {"near"}, i : 1..Len(OpSeq), d : {1, 3}, t : 1..NTransforms]
  \cup [kind : {"disp"}, i : 1..Len(OpSeq), d : {3, 8}, t : {0}]
  \cup [kind : {"nest", "nestmap", "nestfilter", "nestreduce", "nestin"}, i : 1..Len(L2), d : {3}, t : {0}]
  \* an operation is an operation wherever it stands and however ill-formed its operand list is
  \cup [kind : {"wrong"}, i : 1..Len(OpSeq), d : {3}, t : {0}]
  \cup [kind : {"dispin"}, i : 1..Len(OpSeq), d : {3, 8}, t : 1..7]
  \* the bracket-less spelling {"op": x}, x not an array, at the top and as an operand: still an operation
  \cup [kind : {"bare", "barein"}, i : 1..Len(OpSeq), d : {3}, t : 1..Len(Bare2)]
  \cup [kind : {"collmap", "collfilter", "collreduce", "collmerge"}, i : {q \in 1..Len(L2) : L2[q].t = "a"}, d : {3, 4}, t : {0}]

\* a count the operator does NOT accept (operators accepting every count get an accepted one)
WrongCount(k) == IF \E n \in 0..6 : ~ArityOK(k, n) THEN CHOOSE n \in 0..6 : ~ArityOK(k, n) ELSE 1
RuleOf(cc) ==
  CASE cc.kind = "lit" -> L2[cc.i]
    [] cc.kind = "near" -> Obj(<< <<Transform(OpSeq[cc.i], cc.t), A2[BenignIdx(OpSeq[cc.i])]>> >>)
    [] cc.kind = "disp" -> Obj(<< <<OpSeq[cc.i], A2[BenignIdx(OpSeq[cc.i])]>> >>)
    \* a literal as an operand of an eager operator and as a branch result: still returned untouched
    [] cc.kind = "nest" -> Op(K_if, <<True, Op(K_merge, <<L2[cc.i], Arr(<<L2[cc.i]>>)>>)>>)
    \* a literal as a member of a literal array given to map / filter / reduce / in: members are not evaluated
    [] cc.kind = "nestmap" -> Op(K_map, <<Arr(<<L2[cc.i], IntV(2)>>), VarOf(<<>>)>>)
    [] cc.kind = "nestfilter" -> Op(K_filter, <<Arr(<<L2[cc.i], IntV(2)>>), True>>)
    [] cc.kind = "nestreduce" -> Op(K_reduce, <<Arr(<<L2[cc.i]>>), VarOf(S_current), IntV(0)>>)
    [] cc.kind = "nestin" -> Op(K_in, <<L2[cc.i], Arr(<<IntV(2), L2[cc.i]>>)>>)
    [] cc.kind = "wrong" -> Op(OpSeq[cc.i], Benign(OpSeq[cc.i], WrongCount(OpSeq[cc.i]), 1))
    [] cc.kind = "bare" -> Obj(<< <<OpSeq[cc.i], Bare2[cc.t]>> >>)
    [] cc.kind = "barein" -> Op(K_notnot, <<Obj(<< <<OpSeq[cc.i], Bare2[cc.t]>> >>)>>)
    [] cc.kind = "dispin" ->
         LET inner == Obj(<< <<OpSeq[cc.i], A2[BenignIdx(OpSeq[cc.i])]>> >>) IN
         (CASE cc.t = 1 -> Op(K_some, <<inner, True>>)                       \* as the collection of a quantifier
           [] cc.t = 2 -> Op(K_map, <<inner, VarOf(<<>>)>>)                 \* as the collection of map
           [] cc.t = 3 -> Op(K_notnot, <<inner>>)                           \* as an eager operand
           [] cc.t = 4 -> Op(K_if, <<inner, IntV(1), IntV(0)>>)             \* as a condition
           [] cc.t = 5 -> Op(K_reduce, <<Arr(<<>>), IntV(1), inner>>)       \* as the initial value of reduce
           [] cc.t = 6 -> Op(K_var, <<Str(<<110, 111, 112, 101>>), inner>>) \* as a default expression
           [] cc.t = 7 -> Op(K_and, <<True, inner>>))                       \* as the last operand of and
    \* a literal ARRAY (possibly with operation-shaped members) as the collection itself: members stay unevaluated
    [] cc.kind = "collmap" -> Op(K_map, <<L2[cc.i], VarOf(<<>>)>>)
    [] cc.kind = "collfilter" -> Op(K_filter, <<L2[cc.i], True>>)
    [] cc.kind = "collreduce" -> Op(K_reduce, <<L2[cc.i], VarOf(S_current), IntV(0)>>)
    [] cc.kind = "collmerge" -> Op(K_merge, <<L2[cc.i], L2[cc.i]>>)
DataOf(cc) == D2[cc.d]

Init == c \in Family /\ phase = "new"
Next == phase = "new" /\ phase' = "done" /\ UNCHANGED c
Spec == Init /\ [][Next]_vars

Outcome(cc) == Eval(RuleOf(cc), DataOf(cc))

\* -------- invariants on the specification
LiteralsAreInert ==
  phase = "done" /\ ~IsOperation(RuleOf(c)) =>
     LET o == Outcome(c) IN o.ok /\ SameValue(o.v, RuleOf(c)) /\ o.log = <<>>
CorpusLiteralsAreLiterals ==
  phase = "done" /\ c.kind = "lit" => ~IsOperation(RuleOf(c)) /\ IsJson(RuleOf(c))
\* a transformed name is an operation exactly when it happens to be another operator name
NearMissDiscipline ==
  phase = "done" /\ c.kind = "near" =>
     (IsOperation(RuleOf(c)) <=> Transform(OpSeq[c.i], c.t) \in AllOps)
\* all 35 names are dispatched and the benign operands are accepted
DispatchAll ==
  phase = "done" /\ c.kind = "disp" => IsOperation(RuleOf(c)) /\ Outcome(c).ok
NestedLiteralUntouched ==
  phase = "done" /\ c.kind = "nest" =>
     LET o == Outcome(c)
         v == L2[c.i]
     IN o.ok /\ SameValue(o.v, Arr((IF v.t = "a" THEN v.v ELSE <<v>>) \o <<v>>))
NestedInCollectionsUntouched ==
  phase = "done" /\ c.kind \in {"nestmap", "nestfilter", "nestreduce", "nestin"} =>
     LET o == Outcome(c)
         v == L2[c.i]
     IN o.ok /\ CASE c.kind \in {"nestmap", "nestfilter"} -> SameValue(o.v, Arr(<<v, IntV(2)>>))
                  [] c.kind = "nestreduce" -> SameValue(o.v, v)
                  [] c.kind = "nestin" -> o.v = True
LiteralCollectionsUntouched ==
  phase = "done" /\ c.kind \in {"collmap", "collfilter", "collreduce", "collmerge"} =>
     LET o == Outcome(c)
         v == L2[c.i]
     IN o.ok /\ SameValue(o.v, CASE c.kind = "collmerge" -> Arr(v.v \o v.v)
                                  [] c.kind = "collreduce" -> (IF v.v = <<>> THEN IntV(0) ELSE v.v[Len(v.v)])
                                  [] OTHER -> v)
\* an ill-formed operation is an error, never a literal
IllFormedOperationIsNotALiteral ==
  phase = "done" /\ c.kind = "wrong" /\ ~ArityOK(OpSeq[c.i], WrongCount(OpSeq[c.i])) => ~Outcome(c).ok
\* the operation is evaluated (not returned as a literal) in every operand position
DispatchedInEveryPosition ==
  phase = "done" /\ c.kind = "dispin" =>
    LET inner == Obj(<< <<OpSeq[c.i], A2[BenignIdx(OpSeq[c.i])]>> >>)
        iv == Eval(inner, DataOf(c))
        o == Outcome(c)
    IN iv.ok /\ CASE c.t = 3 -> o.ok /\ o.v = Bool(~IsFalsy(iv.v))
                   [] c.t = 4 -> o.ok /\ SameValue(o.v, IF IsFalsy(iv.v) THEN IntV(0) ELSE IntV(1))
                   [] c.t \in {5, 6, 7} -> o.ok /\ SameValue(o.v, iv.v)
                   [] c.t = 2 -> (iv.v.t \in {"a", "z"} <=> o.ok)
                   [] c.t = 1 -> (iv.v.t \in {"a", "s", "z"} <=> o.ok)
\* the bracket-less spelling is an operation too: never returned (or tested for truthiness) as a literal object -
\* an operator that cannot take one operand makes it an error
BareOperandIsStillAnOperation ==
  phase = "done" /\ c.kind \in {"bare", "barein"} =>
    LET inner == Obj(<< <<OpSeq[c.i], Bare2[c.t]>> >>)
    IN IsOperation(inner) /\ (~ArityOK(OpSeq[c.i], 1) => ~Outcome(c).ok)
ExportCases ==
  phase = "done" => Export(<<c.kind, c.i, c.d, c.t>>, RuleOf(c), DataOf(c), Outcome(c), <<"C02">>, Flags(FALSE, TRUE))
=============================================================================
