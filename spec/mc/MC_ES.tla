-------------------------------- MODULE MC_ES --------------------------------
(***************************************************************************)
(* Cross-check of the ECMA-262 transcriptions (IsLooselyEqual,             *)
(* IsStrictlyEqual, IsLessThan, StringToNumber, parseFloat) against ground *)
(* truth recorded once from a real ECMAScript engine (fixtures/es_*.ndjson,*)
(* produced by fixtures/gen_es.js with node 20 and committed; no engine is *)
(* needed at check time).  In the fixture a number's text is JS String(n). *)
(***************************************************************************)
EXTENDS MCBase

Rel == ndJsonDeserialize(IOEnv.VERIF_FIXTURES \o "/es_rel.ndjson")
Num == ndJsonDeserialize(IOEnv.VERIF_FIXTURES \o "/es_num.ndjson")

VARIABLES c, phase
vars == <<c, phase>>

Family == [kind : {"rel"}, i : 1..Len(Rel)] \cup [kind : {"num"}, i : 1..Len(Num)]
Init == c \in Family /\ phase = "new"
Next == phase = "new" /\ phase' = "done" /\ UNCHANGED c
Spec == Init /\ [][Next]_vars

SameF(a, b) == a.k = b.k /\ (a.k = "fin" => a.s = b.s /\ a.m = b.m /\ a.e = b.e)

RelAgrees ==
  phase = "done" /\ c.kind = "rel" =>
    LET r == Rel[c.i] IN
    /\ AbstractEq(r.a, r.b) = r.eq
    /\ StrictEq(r.a, r.b) = r.seq
    /\ Lt(r.a, r.b) = r.lt
    /\ Lte(r.a, r.b) = r.lte
    /\ Gt(r.a, r.b) = r.gt
    /\ Gte(r.a, r.b) = r.gte
NumAgrees ==
  phase = "done" /\ c.kind = "num" =>
    LET r == Num[c.i] IN
    /\ SameF(StringToNumber(r.s), r.num)
    /\ SameF(ParseFloat(r.s), r.pf)
\* laws of the relations, on the same pairs
RelLaws ==
  phase = "done" /\ c.kind = "rel" =>
    LET a == Rel[c.i].a
        b == Rel[c.i].b
    IN /\ AbstractEq(a, b) = AbstractEq(b, a)
       /\ StrictEq(a, b) = StrictEq(b, a)
       /\ (StrictEq(a, b) => AbstractEq(a, b))
       /\ Gt(a, b) = Lt(b, a)
       /\ Gte(a, b) = Lte(b, a)
       /\ ((a.t = "z") /\ AbstractEq(a, b) => b.t = "z")
       /\ (a.t \in {"a", "o"} /\ b.t \in {"a", "o"} => ~AbstractEq(a, b) /\ ~StrictEq(a, b))
=============================================================================
