SPECIFICATION Spec
INVARIANT SuccessDiscipline FailureDiscipline SuccessIff StatusSet ModesEquivalent PipeLaw ExportScenarios
PROPERTY AppendOnly
CHECK_DEADLOCK TRUE
