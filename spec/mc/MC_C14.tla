------------------------------- MODULE MC_C14 -------------------------------
(***************************************************************************)
(* C14: all / some / none are bounded quantifiers over an array, or a      *)
(* string taken character by character; none = not some; empty and null    *)
(* collections make all and some false; anything else is an error;         *)
(* evaluation stops at the first deciding element; elements written as     *)
(* expressions inside a LITERAL array are evaluated against the outer data.*)
(***************************************************************************)
EXTENDS MCBase

CO14 == Corpus("CO14")
PR14 == Corpus("PR14")
D14 == Corpus("D14")
QOps == <<K_all, K_some, K_none>>

VARIABLES c, phase
vars == <<c, phase>>

InFamily(x) == x \in [q : 1..3, co : 1..Len(CO14), pr : 1..Len(PR14), d : 1..Len(D14)]
RuleOf(cc) == Op(QOps[cc.q], <<CO14[cc.co], PR14[cc.pr]>>)
DataOf(cc) == D14[cc.d]

Init == InFamily(c) /\ phase = "new"
Next == phase = "new" /\ phase' = "done" /\ UNCHANGED c
Spec == Init /\ [][Next]_vars

Outcome(cc) == Eval(RuleOf(cc), DataOf(cc))

\* the collection as the statement reads it: a literal array's elements are rule text, evaluated against
\* the outer data one by one; a computed collection's elements are data
Computed(cc) == CO14[cc.co].t = "o"
CollVal(cc) == IF Computed(cc) THEN EvL(CO14[cc.co], DataOf(cc)) ELSE R(TRUE, CO14[cc.co], <<>>)
IsLit(cc) == ~Computed(cc) /\ CO14[cc.co].t = "a"
RawElems(cc) == LET v == CollVal(cc).v IN
                CASE v.t = "a" -> v.v [] v.t = "s" -> CharsOf(v) [] OTHER -> <<>>
\* an unparsable predicate with an empty collection is left open (false today)
Scope(cc) == IF CollVal(cc).ok /\ CollVal(cc).v.t \in {"a", "s", "z"} /\ RawElems(cc) = <<>> /\ ~ParseOK(PR14[cc.pr])
             THEN <<>> ELSE <<"C14">>

\* declarative reading: the truth value of the predicate on element j (when everything up to j evaluates)
ElemVal(cc, j) == IF IsLit(cc) THEN EvL(RawElems(cc)[j], DataOf(cc)) ELSE R(TRUE, RawElems(cc)[j], <<>>)
PredOn(cc, j) == Ev(PR14[cc.pr], ElemVal(cc, j).v)
GoodUpTo(cc, n) == \A j \in 1..n : ElemVal(cc, j).ok /\ PredOn(cc, j).ok
TruthAt(cc, j) == ~IsFalsy(PredOn(cc, j).v)
\* first deciding element for the quantifier (0 if none)
Decides(cc, j) == IF cc.q = 1 THEN ~TruthAt(cc, j) ELSE TruthAt(cc, j)
FirstDeciding(cc) == LET n == Len(RawElems(cc))
                         S == {j \in 1..n : GoodUpTo(cc, j) /\ Decides(cc, j) /\ \A i \in 1..(j - 1) : ~Decides(cc, i)}
                     IN IF S = {} THEN 0 ELSE CHOOSE j \in S : TRUE

\* -------- invariants on the specification
Quantifier ==
  phase = "done" =>
    LET o == Outcome(c)
        cv == CollVal(c)
        n == Len(RawElems(c))
    IN /\ (~cv.ok => ~o.ok)
       /\ (cv.ok /\ cv.v.t \notin {"a", "s", "z"} => ~o.ok)
       /\ (cv.ok /\ cv.v.t \in {"a", "s", "z"} /\ n = 0 => o.ok /\ o.v = Bool(c.q = 3))
       /\ (cv.ok /\ cv.v.t \in {"a", "s"} /\ n > 0 /\ ParseOK(PR14[c.pr]) =>
            LET fd == FirstDeciding(c) IN
            IF fd > 0 THEN o.ok /\ o.v = Bool(c.q = 2)              \* all: false, some: true, none: false
            ELSE IF GoodUpTo(c, n) THEN o.ok /\ o.v = Bool(c.q # 2)  \* all: true, some: false, none: true
            ELSE ~o.ok)
NoneIsNotSome ==
  phase = "done" /\ c.q = 3 =>
    LET a == Outcome(c)
        b == Outcome([c EXCEPT !.q = 2])
    IN a.ok = b.ok /\ (a.ok => a.v.v = ~b.v.v) /\ a.log = b.log
\* evaluation stops at the first deciding element: no log line of a later element or predicate application
ShortCircuit ==
  phase = "done" /\ CollVal(c).ok /\ CollVal(c).v.t \in {"a", "s"} /\ ParseOK(PR14[c.pr]) /\ FirstDeciding(c) > 0 =>
    LET fd == FirstDeciding(c)
        RECURSIVE LogsUpTo(_)
        LogsUpTo(j) == IF j = 0 THEN CollVal(c).log ELSE LogsUpTo(j - 1) \o ElemVal(c, j).log \o PredOn(c, j).log
    IN Outcome(c).log = LogsUpTo(fd)
StringsByCharacter ==
  phase = "done" /\ CollVal(c).ok /\ CollVal(c).v.t = "s" =>
    \A j \in DOMAIN RawElems(c) : RawElems(c)[j] = Str(<<CollVal(c).v.v[j]>>)
ExportCases ==
  phase = "done" => Export(<<c.q, c.co, c.pr, c.d>>, RuleOf(c), DataOf(c), Outcome(c), Scope(c), Flags(FALSE, TRUE))
=============================================================================
