SPECIFICATION Spec
INVARIANT PresentBeatsDefault AbsentIsNull WholeData FrameLaw StringIndexIsCharacter ExportCases
CHECK_DEADLOCK FALSE
