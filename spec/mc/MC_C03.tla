------------------------------- MODULE MC_C03 -------------------------------
(***************************************************************************)
(* C03: every operator accepts exactly its documented operand counts and   *)
(* rejects every other count with an error; {"op": x} means {"op": [x]}.   *)
(* Family: 35 operators x operand counts 0..6 x benign and arbitrary       *)
(* operand tuples; bracket-less spelling for 20 non-array operands;        *)
(* arity errors placed in selected / unselected lazy branches and under    *)
(* eager parents (two-phase parsing: no log line before a skeleton error). *)
(***************************************************************************)
EXTENDS MCBase

X3 == Corpus("X3")
T3 == Corpus("T3")
D3 == Corpus("D3")

VARIABLES c, phase
vars == <<c, phase>>

Family ==
       [kind : {"benign"}, i : 1..Len(OpSeq), n : 0..6, v : 1..3, d : {2}]
  \* operand counts around 2^8 and 2^9 (a count kept in a narrow integer would wrap)
  \cup [kind : {"benign"}, i : 1..Len(OpSeq), n : {255, 256, 257, 258, 259, 512, 513}, v : {1}, d : {2}]
  \cup [kind : {"arb"}, i : 1..Len(OpSeq), n : 0..6, v : 1..Len(T3), d : {1}]
  \cup [kind : {"unary"}, i : 1..Len(OpSeq), n : {1}, v : 1..Len(X3), d : {2}]
  \cup [kind : {"place"}, i : 1..Len(OpSeq), n : {0}, v : 1..18, d : {2}]

\* an operation on k with a WRONG operand count (if there is one among 0..6), else a right one
BadCount(k) == IF \E n \in 0..6 : ~ArityOK(k, n) THEN CHOOSE n \in 0..6 : ~ArityOK(k, n) ELSE 0
\* the largest accepted count up to 3 that is at least 1 (1 if none)
GoodCount(k) == IF \E n \in 1..3 : ArityOK(k, n) THEN CHOOSE n \in 1..3 : ArityOK(k, n) /\ \A q \in 1..3 : ArityOK(k, q) => q <= n ELSE 1
BadOp(k) == Op(K_cat, <<Op(k, Benign(k, BadCount(k), 1))>>)
LogL == Op(K_log, <<Str(<<76>>)>>)

RuleOf(cc) ==
  LET k == OpSeq[cc.i] IN
  CASE cc.kind = "benign" -> Op(k, Benign(k, cc.n, cc.v))
    [] cc.kind = "arb" -> Op(k, [j \in 1..cc.n |-> T3[cc.v]])
    [] cc.kind = "unary" -> OpU(k, X3[cc.v])
    [] cc.kind = "place" ->
         CASE cc.v = 1 -> Op(K_if, <<True, BadOp(k), IntV(2)>>)                 \* selected branch
           [] cc.v = 2 -> Op(K_if, <<False, BadOp(k), IntV(2)>>)                \* unselected branch
           [] cc.v = 3 -> Op(K_cat, <<LogL, BadOp(k)>>)                          \* eager parent: no log before the error
           [] cc.v = 4 -> Op(K_or, <<IntV(1), BadOp(k)>>)                        \* after the deciding operand
           [] cc.v = 5 -> Op(K_and, <<LogL, BadOp(k)>>)                          \* lazy parent: the log line comes first
           [] cc.v = 6 -> Op(K_add, <<IntV(1), Op(K_if, <<False, BadOp(k), IntV(2)>>)>>)
           [] cc.v = 7 -> Op(K_map, <<Arr(<<>>), BadOp(k)>>)                     \* unparsable expression, empty collection
           [] cc.v = 8 -> Op(K_var, <<Str(S_a), BadOp(k)>>)                      \* inside a default expression
           \* the ill-formed operation DIRECTLY as an operand (no wrapper), also under its own operator
           [] cc.v = 9 -> Op(K_or, <<False, Op(k, Benign(k, BadCount(k), 1))>>)
           [] cc.v = 10 -> Op(K_and, <<True, Op(k, Benign(k, BadCount(k), 1))>>)
           [] cc.v = 11 -> LET n == GoodCount(k) IN Op(k, [q \in 1..n |-> IF q = n THEN Op(k, Benign(k, BadCount(k), 1)) ELSE BenignAt(k, q, 1)])
           [] cc.v = 12 -> Op(K_if, <<Op(k, Benign(k, BadCount(k), 1)), IntV(1), IntV(2)>>)
           \* the ill-formed operation directly as the per-element expression / predicate over a NON-EMPTY collection
           [] cc.v = 13 -> Op(K_map, <<Arr12, Op(k, Benign(k, BadCount(k), 1))>>)
           [] cc.v = 14 -> Op(K_filter, <<Arr12, Op(k, Benign(k, BadCount(k), 1))>>)
           [] cc.v = 15 -> Op(K_all, <<Arr12, Op(k, Benign(k, BadCount(k), 1))>>)
           [] cc.v = 16 -> Op(K_some, <<VarOf(<<98>>), Op(k, Benign(k, BadCount(k), 1))>>)
           [] cc.v = 17 -> Op(K_reduce, <<Arr12, Op(k, Benign(k, BadCount(k), 1)), IntV(0)>>)
           [] cc.v = 18 -> Op(K_none, <<Arr(<<Op(k, Benign(k, BadCount(k), 1))>>), True>>)
Rule2Of(cc) == Op(OpSeq[cc.i], <<X3[cc.v]>>)
DataOf(cc) == D3[cc.d]

Init == c \in Family /\ phase = "new"
Next == phase = "new" /\ phase' = "done" /\ UNCHANGED c
Spec == Init /\ [][Next]_vars

Outcome(cc) == Eval(RuleOf(cc), DataOf(cc))

\* -------- invariants on the specification
\* acceptance observed through benign tuples is exactly the documented set
AcceptedIffDocumented ==
  phase = "done" /\ c.kind = "benign" => (Outcome(c).ok <=> ArityOK(OpSeq[c.i], c.n))
\* a wrong count is rejected whatever the operands are
RejectedWhateverOperands ==
  phase = "done" /\ c.kind = "arb" /\ ~ArityOK(OpSeq[c.i], c.n) => ~Outcome(c).ok /\ Outcome(c).log = <<>>
BracketlessLaw ==
  phase = "done" /\ c.kind = "unary" =>
     LET a == Outcome(c)
         b == Eval(Rule2Of(c), DataOf(c))
     IN a.ok = b.ok /\ (a.ok => SameValue(a.v, b.v)) /\ a.log = b.log
\* the operand x of the bracket-less form is never an array in this family
UnaryOperandsNotArrays == \A j \in DOMAIN X3 : X3[j].t # "a"
Scope(cc) == IF cc.kind = "arb" /\ ArityOK(OpSeq[cc.i], cc.n) THEN <<>>
             ELSE IF cc.kind = "unary" /\ ArityOK(OpSeq[cc.i], 1) THEN <<>>   \* only the equality of the spellings is pinned
             ELSE IF cc.kind = "place" /\ cc.v = 7 THEN <<>>
             ELSE IF cc.kind = "place" /\ cc.v = 11 /\ OpSeq[cc.i] \in {K_map, K_filter, K_reduce, K_all, K_some, K_none} THEN <<>>
             ELSE <<"C03">>
\* an operation with a wrong count is an error wherever it is actually reached
WrongCountReached ==
  phase = "done" /\ c.kind = "place" /\ c.v \in {9, 10, 12, 13, 14, 15, 16, 17, 18} /\ ~ArityOK(OpSeq[c.i], BadCount(OpSeq[c.i])) => ~Outcome(c).ok
\* ---- error taxonomy (beyond C03: which variant of the error enumeration)
\* the parser's boolean verdict and the variant it reports agree
ParseErrConsistent == phase = "done" => (ParseOK(RuleOf(c)) <=> ParseErr(RuleOf(c)) = NoErr)
\* a wrong count written with brackets is WrongArgumentCount; a bracket-less operand given to an operator that
\* cannot take a single operand is InvalidOperation, while the bracketed spelling of the same is a wrong count
HeadVariants ==
  /\ phase = "done" /\ c.kind = "benign" /\ ~ArityOK(OpSeq[c.i], c.n) => Outcome(c).v = Str(EK_WrongArgumentCount)
  /\ phase = "done" /\ c.kind = "unary" /\ ~ArityOK(OpSeq[c.i], 1) =>
        /\ Outcome(c).v = Str(EK_InvalidOperation)
        /\ Eval(Rule2Of(c), DataOf(c)).v = Str(EK_WrongArgumentCount)
ExportCases ==
  phase = "done" =>
    IF c.kind = "unary"
    THEN Export2(<<c.kind, c.i, c.n, c.v>>, RuleOf(c), Rule2Of(c), DataOf(c), Outcome(c), <<"C03">>,
                 [zlax |-> FALSE, logseq |-> TRUE, relonly |-> Scope(c) = <<>>])
    ELSE Export(<<c.kind, c.i, c.n, c.v>>, RuleOf(c), DataOf(c), Outcome(c), Scope(c),
                \* C03 pins acceptance (Ok / Err); the value belongs to the operator's own property
                [zlax |-> FALSE, logseq |-> TRUE, okonly |-> TRUE, own |-> OwnerOf(OpSeq[c.i]), noev |-> c.n > 6])
=============================================================================
