------------------------------- MODULE MCBase -------------------------------
(***************************************************************************)
(* Shared plumbing of the model modules (TLC only): corpus input, case     *)
(* export for direction A (spec -> implementation), counters.              *)
(***************************************************************************)
EXTENDS JsonLogic, Json, IOUtils, TLCExt, FiniteSets

CorpusDir == IOEnv.VERIF_CORPUS
Corpus(name) == ndJsonDeserialize(CorpusDir \o "/" \o name \o ".ndjson")

\* a sequence given as a function over 1..n (for ToJson)
AsSeq(f) == [j \in 1..Len(f) |-> f[j]]

NoFlags == [zlax |-> FALSE, logseq |-> FALSE]
Flags(z, l) == [zlax |-> z, logseq |-> l]

\* one case line: inputs, the specification's outcome, the properties whose statement pins it
CaseLine(id, rule, data, exp, sc, fl) ==
  ToJson([id |-> id, rule |-> rule, data |-> data,
          exp |-> [ok |-> exp.ok, v |-> exp.v, log |-> exp.log], sc |-> sc, fl |-> fl]) \o "\n"

ExportLine(line) ==
  Serialize(line, IOEnv.VERIF_CASES,
            [format |-> "TXT", charset |-> "UTF-8", openOptions |-> <<"WRITE", "CREATE", "APPEND">>]).exitValue = 0

Export(id, rule, data, exp, sc, fl) == ExportLine(CaseLine(id, rule, data, exp, sc, fl))

\* does an outcome depend on a number text the specification does not know?
RECURSIVE ValUnknown(_)
ValUnknown(v) == CASE v.t = "s" -> TextUnknown(v.v)
                   [] v.t = "a" -> \E j \in DOMAIN v.v : ValUnknown(v.v[j])
                   [] v.t = "o" -> \E j \in DOMAIN v.v : TextUnknown(v.v[j][1]) \/ ValUnknown(v.v[j][2])
                   [] OTHER -> FALSE
OutcomeUnknown(e) == ValUnknown(e.v) \/ \E j \in DOMAIN e.log : ValUnknown(e.log[j])
=============================================================================
