------------------------------- MODULE MCBase -------------------------------
(***************************************************************************)
(* Shared plumbing of the model modules (TLC only): corpus input, case     *)
(* export for direction A (spec -> implementation), counters.              *)
(***************************************************************************)
EXTENDS JsonLogic, Json, IOUtils, TLCExt, FiniteSets

CorpusDir == IOEnv.VERIF_CORPUS
Corpus(name) == ndJsonDeserialize(CorpusDir \o "/" \o name \o ".ndjson")

\* a sequence given as a function over 1..n (for ToJson)
AsSeq(f) == [j \in 1..Len(f) |-> f[j]]

NoFlags == [zlax |-> FALSE, logseq |-> FALSE]
Flags(z, l) == [zlax |-> z, logseq |-> l]

\* one case line: inputs, the specification's outcome, the properties whose statement pins it
CaseLine(id, rule, data, exp, sc, fl) ==
  ToJson([id |-> id, rule |-> rule, data |-> data,
          exp |-> [ok |-> exp.ok, v |-> exp.v, log |-> exp.log], sc |-> sc, fl |-> fl]) \o "\n"

ExportLine(line) ==
  Serialize(line, IOEnv.VERIF_CASES,
            [format |-> "TXT", charset |-> "UTF-8", openOptions |-> <<"WRITE", "CREATE", "APPEND">>]).exitValue = 0

Export(id, rule, data, exp, sc, fl) == ExportLine(CaseLine(id, rule, data, exp, sc, fl))
\* relational case: rule2 is a second spelling that must behave identically in the implementation
Export2(id, rule, rule2, data, exp, sc, fl) ==
  ExportLine(ToJson([id |-> id, rule |-> rule, rule2 |-> rule2, data |-> data,
                     exp |-> [ok |-> exp.ok, v |-> exp.v, log |-> exp.log], sc |-> sc, fl |-> fl]) \o "\n")

\* results of the public js_op helpers: a double as a float-spelled number, or "NaN"/"Infinity"/"-Infinity";
\* Option::None and Result::Err as an Err outcome
S_NaN == <<78, 97, 78>>
FVal(f) == CASE f.k = "nan" -> Str(S_NaN)
             [] f.k = "pinf" -> Str(S_Infinity)
             [] f.k = "ninf" -> Str(<<45>> \o S_Infinity)
             [] OTHER -> FloatNum(f)
OptF(f) == IF f.k = "nan" THEN Fail(<<>>) ELSE R(TRUE, FVal(f), <<>>)
HelperLine(id, fn, args, exp, sc) ==
  ToJson([id |-> id, fn |-> fn, args |-> args, rule |-> Null, data |-> Null,
          exp |-> [ok |-> exp.ok, v |-> exp.v, log |-> <<>>], sc |-> sc, fl |-> NoFlags]) \o "\n"

\* ---- the pinned domain of the statement
\* path shape: "odd" when it has an empty segment, a trailing unescaped dot or a trailing lone backslash
RECURSIVE ShapeLoop(_, _, _, _)
\* lastDelim: the previous character was an unescaped dot
ShapeLoop(s, i, lastDelim, escape) ==
  IF i > Len(s) THEN (IF escape \/ lastDelim THEN "odd" ELSE "ok")
  ELSE IF escape THEN ShapeLoop(s, i + 1, FALSE, FALSE)
  ELSE IF s[i] = 92 THEN ShapeLoop(s, i + 1, FALSE, TRUE)
  ELSE IF s[i] = 46 THEN ShapeLoop(s, i + 1, TRUE, FALSE)
  ELSE ShapeLoop(s, i + 1, FALSE, FALSE)
\* a path is left open by the statement only when it ENDS in an unescaped dot or in a lone backslash; an empty
\* segment elsewhere ("a..b", ".a") simply names the key ""
PathShape(s) == IF s = <<>> THEN "ok" ELSE ShapeLoop(s, 1, FALSE, FALSE)
\* an index segment must be the canonical decimal text of its integer ("+1", "01", "-0" are left open)
CanonicalSeg(seg) ==
  LET ix == ParseI64(seg)
  IN ix = NoIndex \/ seg = (IF ix.neg THEN <<45>> ELSE <<>>) \o DecDigits(ix.mag)
\* does the walk of the path through this data ever apply a non-canonical integer spelling ("+1", "01", "-0")
\* as an INDEX (array or string step)?  As an object key every spelling is just a key.
RECURSIVE OddIndexUsed(_, _, _)
OddIndexUsed(cur, segs, i) ==
  IF i > Len(segs) THEN FALSE
  ELSE IF cur.t \in {"a", "s"} THEN (~CanonicalSeg(segs[i]) \/ (LET r == PathStep(cur, segs[i]) IN r.found /\ OddIndexUsed(r.v, segs, i + 1)))
  ELSE IF cur.t = "o" THEN (LET r == PathStep(cur, segs[i]) IN r.found /\ OddIndexUsed(r.v, segs, i + 1))
  ELSE FALSE
PinnedKeyOn(k, d) ==
  CASE k.t = "z" -> TRUE
    [] k.t = "s" -> PathShape(k.v) = "ok" /\ ~OddIndexUsed(d, SplitWithEscape(k.v, 46), 1)
    [] k.t = "n" -> k.k = "i"
    [] OTHER -> FALSE
\* data-independent version (conservative): no odd spelling anywhere
PinnedKey(k) ==
  CASE k.t = "z" -> TRUE
    [] k.t = "s" -> PathShape(k.v) = "ok" /\ \A j \in DOMAIN SplitWithEscape(k.v, 46) : CanonicalSeg(SplitWithEscape(k.v, 46)[j])
    [] k.t = "n" -> k.k = "i"
    [] OTHER -> FALSE

\* ---- benign operands: an operand list on which operator k succeeds for every accepted count
S_a == <<97>>
S_abc == <<97, 98, 99>>
S_hello == <<104, 233, 108, 108, 111>>
NumsA == <<IntV(1), IntV(2), IntV(3), IntV(4), IntV(5), IntV(6), IntV(7)>>
NumsB == <<IntV(0), IntV(-1), IntV(2), IntV(9), IntV(1), IntV(1), IntV(3)>>
NumsC == <<IntV(7), IntV(7), IntV(7), IntV(7), IntV(7), IntV(7), IntV(7)>>
Nums(v) == IF v = 1 THEN NumsA ELSE IF v = 2 THEN NumsB ELSE NumsC
SumExpr == Op(K_add, <<VarOf(S_current), VarOf(S_accumulator)>>)
Arr12 == Arr(<<IntV(1), IntV(2)>>)

\* a benign operand for operator k at position j (variant v): the operation succeeds for every accepted count
BenignAt(k, j, v) ==
  CASE k = K_in /\ j = 1 -> Str(S_a)
    [] k = K_in /\ j = 2 -> IF v = 1 THEN Str(S_abc) ELSE Arr(<<Str(S_a)>>)
    [] k = K_substr /\ j = 1 -> Str(S_hello)
    [] k = K_var /\ j = 1 -> IF v = 1 THEN Str(S_a) ELSE IF v = 2 THEN IntV(0) ELSE Null
    [] k = K_missing -> IF v = 1 THEN Str(S_a) ELSE Str(<<98, 46, 48>>)
    [] k = K_missing_some /\ j = 2 -> Arr(<<Str(S_a), Str(<<120>>)>>)
    [] k \in {K_map, K_filter, K_all, K_some, K_none, K_reduce} /\ j = 1 -> IF v = 3 THEN Null ELSE Arr12
    [] k \in {K_map, K_filter, K_all, K_some, K_none} /\ j = 2 -> IF v = 1 THEN VarOf(<<>>) ELSE IntV(1)
    [] k = K_reduce /\ j = 2 -> SumExpr
    [] OTHER -> Nums(v)[((j - 1) % 7) + 1]
Benign(k, n, v) == [j \in 1..n |-> BenignAt(k, j, v)]


\* the 35 operator names in a fixed order
OpSeq == <<K_eq, K_ne, K_seq, K_sne, K_not, K_notnot, K_lt, K_lte, K_gt, K_gte, K_add, K_sub, K_mul, K_div, K_mod,
           K_max, K_min, K_merge, K_in, K_cat, K_substr, K_log, K_var, K_missing, K_missing_some,
           K_if, K_tern, K_or, K_and, K_map, K_filter, K_reduce, K_all, K_some, K_none>>
\* the property whose statement owns the VALUE computed by an operator
OwnerOf(k) == CASE k \in {K_eq, K_ne} -> "C07"
                [] k \in {K_seq, K_sne} -> "C08"
                [] k \in {K_lt, K_lte, K_gt, K_gte} -> "C09"
                [] k \in {K_add, K_sub, K_mul, K_div, K_mod, K_max, K_min} -> "C10"
                [] k = K_var -> "C11"
                [] k \in {K_missing, K_missing_some} -> "C12"
                [] k \in {K_map, K_filter, K_reduce} -> "C13"
                [] k \in {K_all, K_some, K_none} -> "C14"
                [] k \in {K_merge, K_in} -> "C15"
                [] k \in {K_cat, K_substr} -> "C16"
                [] k \in {K_if, K_tern, K_and, K_or} -> "C05"
                [] k \in {K_not, K_notnot} -> "C06"
                [] k = K_log -> "C17"
Tier == IOEnv.VERIF_TIER
Deep == Tier = "thorough"

\* does an outcome depend on a number text the specification does not know?
RECURSIVE ValUnknown(_)
ValUnknown(v) == CASE v.t = "s" -> TextUnknown(v.v)
                   [] v.t = "a" -> \E j \in DOMAIN v.v : ValUnknown(v.v[j])
                   [] v.t = "o" -> \E j \in DOMAIN v.v : TextUnknown(v.v[j][1]) \/ ValUnknown(v.v[j][2])
                   [] OTHER -> FALSE
OutcomeUnknown(e) == ValUnknown(e.v) \/ \E j \in DOMAIN e.log : ValUnknown(e.log[j])
=============================================================================
