------------------------------- MODULE MC_C18 -------------------------------
(***************************************************************************)
(* C18: the jsonlogic command is a faithful, chainable wrapper.            *)
(* TLC runs the Cli protocol for every scenario (rule text class x data    *)
(* text class x the three ways of supplying data), checks the stdout /     *)
(* status discipline and the equivalence of the three modes, checks the    *)
(* chaining law on the two-process composition, and exports every          *)
(* terminal state as a scenario for the real binary.                       *)
(***************************************************************************)
EXTENDS Cli, Json, IOUtils, TLCExt, FiniteSets

CorpusDir == IOEnv.VERIF_CORPUS
Corpus(name) == ndJsonDeserialize(CorpusDir \o "/" \o name \o ".ndjson")
RV18 == Corpus("RV18")
DV18 == Corpus("DV18")
P2V18 == Corpus("P2V18")
BadClasses == <<"empty", "truncated", "garbage", "notjson", "twodocs", "junkthendoc", "longgarbage", "ffpad", "nbsppad", "nelpad", "lspad", "bompad", "aposquoted">>

VARIABLE sc       \* the scenario descriptor (constant during a behaviour)
vars == <<sc, ruleText, dataArg, stdin, dataText, pc, pending, outcome, stdout, status>>

\* r / d: index into the valid corpus, or negative: an invalid text class; mode: 1 argument, 2 stdin (argument omitted), 3 stdin ("-")
TextOf(C, i) == IF i > 0 THEN Valid(C[i]) ELSE Invalid(BadClasses[-i])
\* st: how the harness writes the (valid) texts - 1 compact, 2 pretty-printed over several lines, 3 padded with
\* white space and with object keys in reverse order; the model abstracts texts to values, so st cannot matter
NBad == Len(BadClasses)
Scenarios == [r : (1..Len(RV18)) \cup {-q : q \in 1..NBad}, d : (1..Len(DV18)) \cup {-q : q \in 1..(NBad + 2)}, mode : {1, 2, 3}, st : {1, 2, 3}]
             \cup [r : {1, 2, 11}, d : {2, 4, 7}, mode : {1, 2, 3}, st : {4}]
             \* st 5: the compact text followed by white space only (so a text starting with '-' still starts with it)
             \cup [r : {1, 6, 7, 11}, d : {2, 3, 6}, mode : {1, 2, 3}, st : {5}]
             \* st 6: the data is an argument (also the empty, invalid one) while a VALID document waits on standard
             \* input: it must be ignored exactly like junk
             \cup [r : {1, 11}, d : {-1, 2, 3}, mode : {1}, st : {6}]
\* classes -(NBad+1), -(NBad+2): invalid UTF-8 (before the document / inside a string of an otherwise well-formed
\* document), only on standard input; invalid texts need no style variants
Admissible(s) == (s.d <= -(NBad + 1) => s.mode \in {2, 3}) /\ ((s.r < 0 \/ s.d < 0) => s.st \in {1, 6})
DataTextOf(s) == IF s.d = -(NBad + 1) THEN Invalid("badutf8")
                 ELSE IF s.d = -(NBad + 2) THEN Invalid("badutf8str")
                 ELSE TextOf(DV18, s.d)
Junk == Invalid("junk")     \* what is on standard input when the data comes as an argument: must be ignored

Init == /\ sc \in {s \in Scenarios : Admissible(s)}
        /\ CliInit(TextOf(RV18, sc.r),
                   CASE sc.mode = 1 -> [given |-> TRUE, dash |-> FALSE, text |-> DataTextOf(sc)]
                     [] sc.mode = 2 -> [given |-> FALSE, dash |-> FALSE, text |-> NoText]
                     [] sc.mode = 3 -> [given |-> TRUE, dash |-> TRUE, text |-> NoText],
                   IF sc.mode = 1 THEN (IF sc.st = 6 THEN Valid(DV18[2]) ELSE Junk) ELSE DataTextOf(sc))
Next == CliNext /\ UNCHANGED sc
Spec == Init /\ [][Next]_vars
FairSpec == Spec /\ WF_vars(Next)

\* the three ways of supplying the data are observationally equal: the terminal observation is a
\* function of (rule text, data text) only
Expected(s) ==
  LET rt == TextOf(RV18, s.r)
      dt == DataTextOf(s)
  IN IF ~rt.valid \/ ~dt.valid THEN [status |-> "nonzero", out |-> <<>>]
     ELSE LET e == Eval(rt.v, dt.v)
          IN IF e.ok THEN [status |-> "zero", out |-> Append(e.log, e.v)] ELSE [status |-> "nonzero", out |-> e.log]
ModesEquivalent == pc = "exit" => status = Expected(sc).status /\ stdout = Expected(sc).out

\* chaining: when the first stage prints no log line, piping it into a second invocation computes
\* the second rule on the parsed output of the first
PipeLaw ==
  pc = "exit" /\ status = "zero" /\ Len(stdout) = 1 =>
    \A j \in DOMAIN P2V18 :
      LET second == Eval(P2V18[j], stdout[1])          \* stdin of stage 2 = the single line of stage 1
          direct == Eval(P2V18[j], Eval(ruleText.v, Designated.v).v)
      IN second.ok = direct.ok /\ (second.ok => SameValue(second.v, direct.v)) /\ second.log = direct.log

\* ---- export: one scenario per terminal state (+ the pipe scenarios of log-free first stages)
ExportScenarios ==
  pc = "exit" =>
    Serialize(ToJson([id |-> sc, rule |-> ruleText, mode |-> sc.mode, style |-> sc.st, data |-> Designated,
                      exp |-> [status |-> status, out |-> stdout],
                      pipe |-> IF status = "zero" /\ Len(stdout) = 1 /\ sc.mode = 1 /\ sc.st = 1
                               THEN [j \in DOMAIN P2V18 |->
                                      LET e == Eval(P2V18[j], stdout[1])
                                      IN [rule2 |-> P2V18[j], status |-> IF e.ok THEN "zero" ELSE "nonzero",
                                          out |-> IF e.ok THEN Append(e.log, e.v) ELSE e.log]]
                               ELSE <<>>,
                      scp |-> <<"C18">>]) \o "\n",
              IOEnv.VERIF_CASES, [format |-> "TXT", charset |-> "UTF-8", openOptions |-> <<"WRITE", "CREATE", "APPEND">>]).exitValue = 0
=============================================================================
