SPECIFICATION FairSpec
PROPERTY PyTermination
CHECK_DEADLOCK TRUE
