------------------------------- MODULE MC_C17 -------------------------------
(***************************************************************************)
(* C17: apply is a pure, stateless, thread-safe function of (rule, data).  *)
(* TLC explores every interleaving of the Calls model for small thread     *)
(* programs over a shared pool (same rule on different data, same data     *)
(* under different rules, repetitions) and exports every program           *)
(* assignment as a history to be executed on real threads.                 *)
(***************************************************************************)
EXTENDS MCBase

R17 == Corpus("R17")
D17 == Corpus("D17")
NR == Len(R17)
\* cross-talk family: ONE leaf value sent through operators of DIFFERENT coercion families (parseFloat-style + *,
\* Number-style - max, ==, <, the string form, deep membership) in successive calls of the same thread - what a
\* memo table keyed by a part of the input (a string, a node address) would confuse
RX17 == Corpus("RX17")
DX17 == Corpus("DX17")
NX == Len(RX17)
NDX == Len(DX17)
ND == Len(D17)
\* the shared pool: every rule paired with every data value
\* a deep rule: DeepLevels nested {"+":[X,1]} around {"var":"a"} (JSON depth 2*DeepLevels+2 <= 128). Too deep for the
\* AJ wire format, so it is exported as JSON TEXT built alongside the value by the same recursion.
DeepLevels == 55
S_a17 == <<97>>
RECURSIVE DeepVal(_), DeepTxt(_)
DeepVal(n) == IF n = 0 THEN VarOf(S_a17) ELSE Op(K_add, <<DeepVal(n - 1), IntV(1)>>)
DeepTxt(n) == IF n = 0 THEN "{\"var\":\"a\"}" ELSE "{\"+\":[" \o DeepTxt(n - 1) \o ",1]}"
\* the shared pool: every rule paired with every data value, then the deep rule paired with every data value
PoolDef == [q \in 1..(NR * ND + ND + NX * NDX) |->
              IF q <= NR * ND THEN [rule |-> R17[((q - 1) \div ND) + 1], data |-> D17[((q - 1) % ND) + 1]]
              ELSE IF q <= NR * ND + ND THEN [rule |-> DeepVal(DeepLevels), data |-> D17[q - NR * ND]]
              ELSE LET z == q - NR * ND - ND IN [rule |-> RX17[((z - 1) \div NDX) + 1], data |-> DX17[((z - 1) % NDX) + 1]]]
Ix(r, d) == (r - 1) * ND + d
DeepIx(d) == NR * ND + d
XIx(r, d) == NR * ND + ND + (r - 1) * NDX + d
\* every ORDERED pair (r1, r2) of cross rules on the same data value, one pair after the other
CrossProg(d) == [j \in 1..(2 * NX * NX) |->
                   LET pr == (j - 1) \div 2 IN
                   IF j % 2 = 1 THEN XIx((pr \div NX) + 1, d) ELSE XIx((pr % NX) + 1, d)]
BigT == IOEnv.VERIF_FAMILY \in {"T8", "T16"}
ThreadsDef == CASE IOEnv.VERIF_FAMILY = "T3" -> {1, 2, 3}
                [] IOEnv.VERIF_FAMILY = "T8" -> 1..8
                [] IOEnv.VERIF_FAMILY = "T16" -> 1..16
                [] OTHER -> {1, 2}

VARIABLES Programs, pool, pc, st, pend, results, stdout, mem
C == INSTANCE Calls WITH Threads <- ThreadsDef, Pool <- PoolDef
vars == <<Programs, pool, pc, st, pend, results, stdout, mem>>

\* thread programs: same rule / different data, same data / different rules, repetitions, erroring calls
ProgSet2 == { <<Ix(2, 1)>>, <<Ix(3, 1), Ix(3, 3)>>, <<Ix(2, 1), Ix(2, 2)>>, <<Ix(5, 1), Ix(5, 2)>>, <<Ix(4, 3), Ix(4, 1)>>,
              <<Ix(6, 1), Ix(2, 1)>>, <<Ix(1, 2), Ix(3, 2)>>, <<Ix(7, 1), Ix(7, 3)>>, <<Ix(3, 1), Ix(3, 1)>> }
ProgSet3 == { <<Ix(3, 1)>>, <<Ix(2, 2)>>, <<Ix(5, 3)>>, <<Ix(6, 1)>>, <<Ix(14, 1)>>, <<Ix(13, 2), Ix(13, 1)>>, <<Ix(15, 1), Ix(15, 2)>> }
\* rule 9..12: index / substr / cat on the whole data; data 4..6: equal-length strings; rule 13: a 55-level arithmetic chain
\* rule 13: missing_some with a repeated absent key (deterministic order of the missing list);
\* rule 14: a log line followed by an error in the same call, as the LAST call of a thread (the line must still appear)
\* rule 15: the ?: alias (same call repeated: the second call must behave exactly like the first)
\* rule 16: an eager operator over `missing` (no var, no log): same rule, then other data, on the same thread
\* rule 24: unknown single-key objects with array values as operands (plain data; nothing but the result is observable)
\* rule 20 then 21: a `missing` that fails half-way, then another `missing` on the same thread;
\* rules 22, 23: and / or whose last operand (a log) is reached because nothing decided earlier: one line, not two
Aliasing == { <<Ix(24, 1), Ix(24, 2)>>, <<Ix(20, 1), Ix(21, 1), Ix(21, 4)>>, <<Ix(22, 1), Ix(23, 1)>>, <<Ix(16, 1), Ix(16, 4), Ix(16, 1)>>, <<Ix(15, 1), Ix(15, 1)>>, <<Ix(13, 1), Ix(13, 1), Ix(13, 2)>>, <<Ix(2, 1), Ix(14, 1)>>, <<Ix(14, 2)>>, <<Ix(9, 4), Ix(9, 5), Ix(9, 6), Ix(9, 4)>>, <<Ix(10, 5), Ix(10, 4)>>, <<Ix(11, 4), Ix(11, 5), Ix(12, 6), Ix(12, 4)>>, <<Ix(1, 1), Ix(1, 2), Ix(1, 3)>> }
DeepProgs == { <<DeepIx(1), DeepIx(2), DeepIx(1)>>, <<DeepIx(2), DeepIx(1)>>, <<DeepIx(1), Ix(9, 4), DeepIx(1)>> }
\* big thread counts: the program assignments are enumerated (every thread the same kind of program, rotated),
\* their interleavings are NOT explored by TLC (exponential) but sampled on real threads
\* rules 17..19 on data 7: three different dotted paths, each thread repeating its own 30 times while the others use theirs
Rep(x, n) == [j \in 1..n |-> x]
Dotted == [t \in ThreadsDef |-> Rep(Ix(17 + (t % 3), 7), 30)]
BigAssignments == {[t \in ThreadsDef |-> p] : p \in DeepProgs \cup Aliasing} \cup {Dotted}
                  \cup {[t \in ThreadsDef |-> CrossProg(d)] : d \in 1..NDX}
                  \cup {[t \in ThreadsDef |-> CrossProg(((t + d) % NDX) + 1)] : d \in 1..2}
                  \cup {[t \in ThreadsDef |-> IF t % 2 = 0 THEN p ELSE q] : p \in DeepProgs, q \in Aliasing}
Init == /\ Programs \in (CASE IOEnv.VERIF_FAMILY = "T3" -> [ThreadsDef -> ProgSet3]
                           [] BigT -> BigAssignments
                           [] OTHER -> [ThreadsDef -> ProgSet2 \cup Aliasing])
        /\ C!CInit
Next == IF BigT THEN UNCHANGED vars ELSE C!CNext
Spec == Init /\ [][Next]_vars
FairSpec == Spec /\ WF_vars(\E t \in ThreadsDef : C!Begin(t) \/ C!Emit(t) \/ C!End(t))

HistoryIndependent == C!HistoryIndependent
InputsUntouched == C!InputsUntouched
WholeLinesInOrder == C!WholeLinesInOrder
AllLinesWritten == C!AllLinesWritten
InputsImmutableC == C!InputsImmutableC
CTermination == C!CTermination
\* mem is written but no action's effect depends on it: the final observable state is a function of the programs alone
Final(t) == [j \in DOMAIN Programs[t] |-> LET e == Eval(PoolDef[Programs[t][j]].rule, PoolDef[Programs[t][j]].data) IN [ok |-> e.ok, v |-> e.v]]
ResultsFunctionOfProgramsOnly == C!AllDone => \A t \in ThreadsDef : results[t] = Final(t)

\* ---- Calls refines the abstract protocol whose safety is PROVED for all parameters in CallsProof.tla (TLAPS):
\* Begin / End map to themselves, Emit (a log line) is a stuttering step, the outcome function is Eval
InputsDef == {PoolDef[q] : q \in DOMAIN PoolDef}
ResOfDef == [x \in InputsDef |-> LET e == Eval(x.rule, x.data) IN [ok |-> e.ok, v |-> e.v]]
CP == INSTANCE CallsProof WITH Threads <- ThreadsDef, Inputs <- InputsDef, Outcomes <- {ResOfDef[x] : x \in InputsDef},
        ResOf <- ResOfDef,
        Prog <- [t \in ThreadsDef |-> [j \in DOMAIN Programs[t] |-> PoolDef[Programs[t][j]]]],
        pool <- [t \in ThreadsDef |-> [j \in DOMAIN Programs[t] |-> pool[Programs[t][j]]]]
RefinesProvedProtocol == CP!Spec

\* ---- export: one history per program assignment (the initial states)
IsInitial == \A t \in ThreadsDef : pc[t] = 1 /\ st[t] = "idle" /\ results[t] = <<>>
ThreadSeq == [q \in 1..Cardinality(ThreadsDef) |-> q]
ExportHistories ==
  IsInitial /\ stdout = <<>> =>
    ExportLine(ToJson([pool |-> [q \in 1..Len(PoolDef) |->
                                   IF q <= NR * ND \/ q > NR * ND + ND THEN [rule |-> PoolDef[q].rule, rule_text |-> "", data |-> PoolDef[q].data]
                                   ELSE [rule |-> Null, rule_text |-> DeepTxt(DeepLevels), data |-> PoolDef[q].data]],
                       threads |-> [q \in DOMAIN ThreadSeq |-> Programs[ThreadSeq[q]]],
                       exp |-> [q \in 1..Len(PoolDef) |-> LET e == Eval(PoolDef[q].rule, PoolDef[q].data) IN [ok |-> e.ok, v |-> e.v, log |-> e.log]],
                       sc |-> <<"C17">>]) \o "\n")
=============================================================================
