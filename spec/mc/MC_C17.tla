------------------------------- MODULE MC_C17 -------------------------------
(***************************************************************************)
(* C17: apply is a pure, stateless, thread-safe function of (rule, data).  *)
(* TLC explores every interleaving of the Calls model for small thread     *)
(* programs over a shared pool (same rule on different data, same data     *)
(* under different rules, repetitions) and exports every program           *)
(* assignment as a history to be executed on real threads.                 *)
(***************************************************************************)
EXTENDS MCBase

R17 == Corpus("R17")
D17 == Corpus("D17")
NR == Len(R17)
ND == Len(D17)
\* the shared pool: every rule paired with every data value
PoolDef == [q \in 1..(NR * ND) |-> [rule |-> R17[((q - 1) \div ND) + 1], data |-> D17[((q - 1) % ND) + 1]]]
Ix(r, d) == (r - 1) * ND + d
ThreadsDef == IF IOEnv.VERIF_FAMILY = "T3" THEN {1, 2, 3} ELSE {1, 2}

VARIABLES Programs, pool, pc, st, pend, results, stdout, mem
C == INSTANCE Calls WITH Threads <- ThreadsDef, Pool <- PoolDef
vars == <<Programs, pool, pc, st, pend, results, stdout, mem>>

\* thread programs: same rule / different data, same data / different rules, repetitions, erroring calls
ProgSet2 == { <<Ix(2, 1)>>, <<Ix(3, 1), Ix(3, 3)>>, <<Ix(2, 1), Ix(2, 2)>>, <<Ix(5, 1), Ix(5, 2)>>, <<Ix(4, 3), Ix(4, 1)>>,
              <<Ix(6, 1), Ix(2, 1)>>, <<Ix(1, 2), Ix(3, 2)>>, <<Ix(7, 1), Ix(7, 3)>>, <<Ix(3, 1), Ix(3, 1)>> }
ProgSet3 == { <<Ix(3, 1)>>, <<Ix(2, 2)>>, <<Ix(5, 3)>>, <<Ix(6, 1)>> }
Init == /\ Programs \in (IF IOEnv.VERIF_FAMILY = "T3" THEN [ThreadsDef -> ProgSet3] ELSE [ThreadsDef -> ProgSet2])
        /\ C!CInit
Next == C!CNext
Spec == Init /\ [][Next]_vars
FairSpec == Spec /\ WF_vars(\E t \in ThreadsDef : C!Begin(t) \/ C!Emit(t) \/ C!End(t))

HistoryIndependent == C!HistoryIndependent
InputsUntouched == C!InputsUntouched
WholeLinesInOrder == C!WholeLinesInOrder
AllLinesWritten == C!AllLinesWritten
InputsImmutableC == C!InputsImmutableC
CTermination == C!CTermination
\* mem is written but no action's effect depends on it: the final observable state is a function of the programs alone
Final(t) == [j \in DOMAIN Programs[t] |-> LET e == Eval(PoolDef[Programs[t][j]].rule, PoolDef[Programs[t][j]].data) IN [ok |-> e.ok, v |-> e.v]]
ResultsFunctionOfProgramsOnly == C!AllDone => \A t \in ThreadsDef : results[t] = Final(t)

\* ---- export: one history per program assignment (the initial states)
IsInitial == \A t \in ThreadsDef : pc[t] = 1 /\ st[t] = "idle" /\ results[t] = <<>>
ThreadSeq == IF IOEnv.VERIF_FAMILY = "T3" THEN <<1, 2, 3>> ELSE <<1, 2>>
ExportHistories ==
  IsInitial /\ stdout = <<>> =>
    ExportLine(ToJson([pool |-> PoolDef,
                       threads |-> [q \in DOMAIN ThreadSeq |-> Programs[ThreadSeq[q]]],
                       exp |-> [q \in 1..Len(PoolDef) |-> LET e == Eval(PoolDef[q].rule, PoolDef[q].data) IN [ok |-> e.ok, v |-> e.v, log |-> e.log]],
                       sc |-> <<"C17">>]) \o "\n")
=============================================================================
