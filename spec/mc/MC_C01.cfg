SPECIFICATION Spec
INVARIANT Total ArityStillEnforced ExportCases
CHECK_DEADLOCK FALSE
