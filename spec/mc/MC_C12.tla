------------------------------- MODULE MC_C12 -------------------------------
(***************************************************************************)
(* C12: missing returns, in request order, exactly the requested keys that *)
(* var cannot find (null keys ignored; a first operand that is an array    *)
(* supplies the whole list); missing_some returns [] when at least the     *)
(* required number of listed keys is present and otherwise the distinct    *)
(* missing keys in order - an absent key is never counted as present.      *)
(***************************************************************************)
EXTENDS MCBase

T12 == Corpus("T12")
K12 == Corpus("K12")
BAD12 == Corpus("BAD12")
TH12 == Corpus("TH12")
NK == Len(K12)
T11 == Corpus("T11")
K11 == Corpus("K11")

VARIABLES c, phase
vars == <<c, phase>>

KeyLists(m) == [1..m -> 1..NK]
MaxLen == IF Deep THEN 4 ELSE 3
\* forms: 1 {"missing":[k...]}  2 {"missing":[[k...]]}  3 {"missing":{"merge":[[k..]]}} (computed list)
\*        4 {"missing_some":[th,[k...]]}  5 {"missing_some":[th,{"merge":[[k...]]}]}  6 ill-typed key  7 {"missing":[[k...], extra]}
InFamily(x) ==
  \/ \E m \in 0..MaxLen : x \in [form : {1, 2, 3, 7}, t : 1..Len(T12), ks : KeyLists(m), th : {0}]
  \/ \E m \in 0..MaxLen : x \in [form : {4}, t : 1..Len(T12), ks : KeyLists(m), th : 1..Len(TH12)]
  \/ \E m \in 0..2 : x \in [form : {5}, t : 1..Len(T12), ks : KeyLists(m), th : 1..Len(TH12)]
  \/ x \in [form : {6}, t : {1}, ks : KeyLists(1), th : 1..Len(BAD12)]
  \* every key of the var corpus, on every var data tree: missing / missing_some must agree with var
  \/ x \in [form : {8, 9}, t : 1..Len(T11), ks : {<<q>> : q \in 1..Len(K11)}, th : {0}]

Keys(cc) == IF cc.form \in {8, 9} THEN <<K11[cc.ks[1]]>> ELSE [j \in DOMAIN cc.ks |-> K12[cc.ks[j]]]
RuleOf(cc) ==
  CASE cc.form = 1 -> Op(K_missing, Keys(cc))
    [] cc.form = 2 -> Op(K_missing, <<Arr(Keys(cc))>>)
    [] cc.form = 3 -> OpU(K_missing, Op(K_merge, <<Arr(Keys(cc))>>))
    [] cc.form = 7 -> Op(K_missing, <<Arr(Keys(cc)), Str(<<120>>)>>)
    [] cc.form = 4 -> Op(K_missing_some, <<TH12[cc.th], Arr(Keys(cc))>>)
    [] cc.form = 5 -> Op(K_missing_some, <<TH12[cc.th], Op(K_merge, <<Arr(Keys(cc))>>)>>)
    [] cc.form = 6 -> Op(K_missing, <<K12[cc.ks[1]], BAD12[cc.th]>>)
    [] cc.form = 8 -> Op(K_missing, <<Str(<<113>>), K11[cc.ks[1]]>>)            \* after a first non-array operand
    [] cc.form = 9 -> Op(K_missing_some, <<IntV(1), Arr(<<K11[cc.ks[1]]>>)>>)
DataOf(cc) == IF cc.form \in {8, 9} THEN T11[cc.t] ELSE T12[cc.t]

Init == InFamily(c) /\ phase = "new"
Next == phase = "new" /\ phase' = "done" /\ UNCHANGED c
Spec == Init /\ [][Next]_vars

Outcome(cc) == Eval(RuleOf(cc), DataOf(cc))
Scope(cc) == IF cc.form = 6 THEN <<>>
             ELSE IF cc.form \in {8, 9} THEN (IF PinnedKeyOn(K11[cc.ks[1]], DataOf(cc)) THEN <<"C12">> ELSE <<>>)
             ELSE <<"C12">>

\* ---- declarative reading of the statement, independent of the loops in Operators.tla
Absent(d, k) == k.t # "z" /\ ~Lookup(d, k).found
Present(d, k) == k.t # "z" /\ Lookup(d, k).found
\* the sub-sequence of ks selected by a predicate, in order
RECURSIVE SelectSeq2(_, _, _)
SelectSeq2(ks, d, i) == IF i > Len(ks) THEN <<>>
                        ELSE (IF Absent(d, ks[i]) THEN <<ks[i]>> ELSE <<>>) \o SelectSeq2(ks, d, i + 1)
\* first occurrences only
RECURSIVE Dedup(_, _)
Dedup(xs, acc) == IF xs = <<>> THEN acc
                  ELSE Dedup(Tail(xs), IF InSeqV(xs[1], acc) THEN acc ELSE Append(acc, xs[1]))
PresentCount(d, ks) == Cardinality({j \in DOMAIN ks : Present(d, ks[j])})

\* -------- invariants on the specification
\* missing = exactly the keys var cannot find, in request order (agreement with var: sentinel default)
MissingIsVarAbsent ==
  phase = "done" /\ c.form \in {1, 2, 3, 7} =>
    LET o == Outcome(c)
        d == DataOf(c)
    IN /\ o.ok
       /\ SameValue(o.v, Arr(SelectSeq2(Keys(c), d, 1)))
       /\ \A j \in DOMAIN Keys(c) :
            LET k == Keys(c)[j]
                viaVar == Eval(Op(K_var, <<k, Str(<<1114111>>)>>), d)   \* a sentinel that occurs nowhere in the data
            IN k.t # "z" => (InSeqV(k, o.v.v) <=> SameValue(viaVar.v, Str(<<1114111>>)))
\* missing_some: [] iff enough listed keys (counted by position) are present; else the distinct absent keys, in order
MissingSomeCounts ==
  phase = "done" /\ c.form \in {4, 5} =>
    LET o == Outcome(c)
        d == DataOf(c)
        need == ToSmall(TH12[c.th].m)
    IN /\ o.ok
       /\ IF PresentCount(d, Keys(c)) >= need THEN SameValue(o.v, Arr(<<>>))
          ELSE SameValue(o.v, Arr(Dedup(SelectSeq2(Keys(c), d, 1), <<>>)))
\* on the var corpus: a pinned key is reported missing exactly when var cannot find it
AgreesWithVarCorpus ==
  phase = "done" /\ c.form \in {8, 9} /\ PinnedKeyOn(K11[c.ks[1]], DataOf(c)) =>
    LET k == K11[c.ks[1]]
        o == Outcome(c)
        absent == k.t # "z" /\ ~Lookup(DataOf(c), k).found
    IN o.ok /\ (IF c.form = 8 THEN InSeqV(k, o.v.v) <=> absent
                ELSE SameValue(o.v, IF absent THEN Arr(<<k>>) ELSE Arr(<<>>)))
ExportCases ==
  phase = "done" => Export(<<c.form, c.t, c.ks, c.th>>, RuleOf(c), DataOf(c), Outcome(c), Scope(c), NoFlags)
=============================================================================
