SPECIFICATION Spec
INVARIANT AcceptedIffDocumented RejectedWhateverOperands BracketlessLaw UnaryOperandsNotArrays ExportCases
CHECK_DEADLOCK FALSE
