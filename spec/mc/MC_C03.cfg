SPECIFICATION Spec
INVARIANT AcceptedIffDocumented RejectedWhateverOperands BracketlessLaw WrongCountReached UnaryOperandsNotArrays ExportCases
CHECK_DEADLOCK FALSE
