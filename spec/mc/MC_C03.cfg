SPECIFICATION Spec
INVARIANT AcceptedIffDocumented RejectedWhateverOperands BracketlessLaw WrongCountReached UnaryOperandsNotArrays ParseErrConsistent HeadVariants ExportCases
CHECK_DEADLOCK FALSE
