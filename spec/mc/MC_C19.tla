------------------------------- MODULE MC_C19 -------------------------------
(***************************************************************************)
(* C19: the Python module adds only JSON (de)serialisation around the      *)
(* library.  TLC runs the PyIface step model for every combination of      *)
(* omitted / supplied optional arguments of both entry points over a       *)
(* corpus of rules and data (erroring rules, floats, big integers,         *)
(* non-ASCII, malformed texts) and exports each terminal state as a        *)
(* scenario for the real extension module.                                 *)
(***************************************************************************)
EXTENDS PyIface, Json, IOUtils, TLCExt

CorpusDir == IOEnv.VERIF_CORPUS
Corpus(name) == ndJsonDeserialize(CorpusDir \o "/" \o name \o ".ndjson")
PV19 == Corpus("PV19")
PD19 == Corpus("PD19")
BadText == <<"empty", "truncated", "garbage", "notjson", "pynan", "ffpad", "nbsppad", "nelpad", "lspad", "twodocs", "surrogate">>

VARIABLE sc
vars == <<sc, entry, argValue, argData, argSer, argDeser, pyc, ser, deser, texts, serCalls, nativeOut, result>>

Txt(C, i) == IF i > 0 THEN [valid |-> TRUE, v |-> C[i]] ELSE [valid |-> FALSE, cls |-> BadText[-i]]
\* v: index into PV19 or a negative bad-text class; d: 0 omitted, index into PD19, or negative bad class
Scenarios ==
       [e : {"apply"}, v : (1..Len(PV19)) \cup {-5}, d : (0..Len(PD19)) \cup {-5}, s : {"omitted", "custom"}, ds : {"omitted", "custom"}]
  \cup [e : {"apply_serialized"}, v : (1..Len(PV19)) \cup {-1, -2, -3, -4, -6, -7, -8, -9, -10, -11}, d : (0..Len(PD19)) \cup {-1, -2, -3, -4, -6, -7, -8, -9, -10, -11}, s : {"omitted"}, ds : {"omitted", "custom"}]

Init == /\ sc \in Scenarios
        /\ PyInit(sc.e, Txt(PV19, sc.v),
                  IF sc.d = 0 THEN [given |-> FALSE] ELSE [given |-> TRUE, x |-> Txt(PD19, sc.d)],
                  sc.s, sc.ds)
Next == PyNext /\ UNCHANGED sc
Spec == Init /\ [][Next]_vars
FairSpec == Spec /\ WF_vars(Next)

ExportScenarios ==
  pyc = "done" =>
    Serialize(ToJson([id |-> sc, entry |-> entry, value |-> argValue,
                      data |-> IF argData.given THEN argData.x ELSE [valid |-> TRUE, omitted |-> TRUE],
                      ser |-> argSer, deser |-> argDeser,
                      exp |-> IF result.kind = "return" THEN [kind |-> "return", v |-> result.v, via |-> result.via]
                              ELSE [kind |-> "raise", exc |-> result.exc],
                      scp |-> <<"C19">>]) \o "\n",
              IOEnv.VERIF_CASES, [format |-> "TXT", charset |-> "UTF-8", openOptions |-> <<"WRITE", "CREATE", "APPEND">>]).exitValue = 0
=============================================================================
