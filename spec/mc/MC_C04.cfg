SPECIFICATION Spec
INVARIANT SubstitutionLaw NoMarkerExecuted ExportCases
CHECK_DEADLOCK FALSE
