------------------------------- MODULE Machine -------------------------------
(***************************************************************************)
(* Small-step abstract machine of one apply(rule, data) call: the          *)
(* state-transition core of the specification.                             *)
(*                                                                         *)
(* One action per place where the interpreter makes a decision             *)
(* (src/value.rs Parsed::evaluate, src/op/mod.rs Operation::evaluate,      *)
(* op/logic.rs if_/and/or, op/array.rs map/filter/reduce/all/some/none).   *)
(* The control stack holds frames; `ret` carries a finished sub-result.    *)
(* Operands of eager and data operators may be evaluated in ANY order (no  *)
(* property pins it); lazy operators are deterministic, left to right.     *)
(* Only sub-terms of the rule are ever put on the control stack: values    *)
(* read from data, defaults and computed values are inert.                 *)
(*                                                                         *)
(* History variables: evals (every <<path, iteration>> whose evaluation    *)
(* was started), dup (some <<path, iteration>> was started twice), out     *)
(* (log lines in emission order).                                          *)
(***************************************************************************)
EXTENDS JsonLogic, FiniteSets

VARIABLES rule, data,      \* the inputs of the call (never change during a behaviour)
          phase,           \* "idle" | "run" | "done"
          stack,           \* control stack, a sequence of frames
          ret,             \* None, or the result [ok, v] of the frame just popped
          out,             \* log lines emitted so far
          evals, dup       \* history: started evaluations; a repeated one

mvars == <<rule, data, phase, stack, ret, out, evals, dup>>

None == [none |-> TRUE]
IsNone(x) == "none" \in DOMAIN x
Top == stack[Len(stack)]
Pop == SubSeq(stack, 1, Len(stack) - 1)
Push(st, f) == Append(st, f)
SetTop(f) == [stack EXCEPT ![Len(stack)] = f]
Running == phase = "run" /\ stack # <<>>

\* an evaluation request: term at path p of the rule, data context d, iteration context it,
\* chk = the term was reached lazily and its eager skeleton has not been checked yet
EvalF(term, p, d, it, chk) == [k |-> "eval", term |-> term, p |-> p, d |-> d, it |-> it, chk |-> chk]

\* rule text navigation: the sub-term at a path
NoSuchTerm == [t |-> "nosuch"]
RECURSIVE TermAt(_, _)
TermAt(r, p) ==
  IF p = <<>> THEN r
  ELSE IF r.t = "a" THEN (IF p[1] \in DOMAIN r.v THEN TermAt(r.v[p[1]], Tail(p)) ELSE NoSuchTerm)
  ELSE IF IsOperation(r) /\ HeadOK(r) /\ p[1] \in DOMAIN Operands(r) THEN TermAt(Operands(r)[p[1]], Tail(p))
  ELSE NoSuchTerm

StartCall(r, d) ==
  /\ rule' = r /\ data' = d /\ phase' = "run"
  /\ stack' = <<EvalF(r, <<>>, d, <<>>, TRUE)>>
  /\ ret' = None /\ out' = <<>> /\ evals' = {} /\ dup' = FALSE

\* ---- entering a term (Parsed::from_value at a lazily reached operand + Parsed::evaluate)
Start ==
  /\ Running /\ Top.k = "eval" /\ IsNone(ret)
  /\ LET f == Top
         t == f.term
     IN /\ evals' = evals \cup {<<f.p, f.it>>}
        /\ dup' = (dup \/ <<f.p, f.it>> \in evals)
        /\ IF f.chk /\ ~ParseOK(t) THEN stack' = Pop /\ ret' = Err
           ELSE IF ~IsOperation(t) THEN stack' = Pop /\ ret' = Ok(t)
           ELSE LET k == KeyOf(t)
                    as == Operands(t)
                    n == Len(as)
                    base == [p |-> f.p, d |-> f.d, it |-> f.it, as |-> as]
                IN CASE k \in EagerOps \cup DataOps ->
                          /\ stack' = SetTop([k |-> "args", op |-> k, as |-> as, p |-> f.p, d |-> f.d, it |-> f.it,
                                              pending |-> 1..n, cur |-> 0, vals |-> [j \in 1..n |-> Null]])
                          /\ ret' = None
                     [] k \in {K_if, K_tern} ->
                          IF n = 0 THEN stack' = Pop /\ ret' = Ok(Null)
                          ELSE /\ stack' = Push(SetTop([k |-> "if", as |-> as, p |-> f.p, d |-> f.d, it |-> f.it, i |-> 1, st |-> "cond"]),
                                                EvalF(as[1], f.p \o <<1>>, f.d, f.it, TRUE))
                               /\ ret' = None
                     [] k \in {K_and, K_or} ->
                          /\ stack' = Push(SetTop([k |-> "andor", op |-> k, as |-> as, p |-> f.p, d |-> f.d, it |-> f.it, i |-> 1]),
                                           EvalF(as[1], f.p \o <<1>>, f.d, f.it, TRUE))
                          /\ ret' = None
                     [] k \in {K_map, K_filter} ->
                          /\ stack' = Push(SetTop([k |-> "each", op |-> k, as |-> as, p |-> f.p, d |-> f.d, it |-> f.it,
                                                   st |-> "coll", el |-> <<>>, j |-> 0, acc |-> <<>>]),
                                           EvalF(as[1], f.p \o <<1>>, f.d, f.it, TRUE))
                          /\ ret' = None
                     [] k = K_reduce ->
                          /\ stack' = Push(SetTop([k |-> "reduce", as |-> as, p |-> f.p, d |-> f.d, it |-> f.it,
                                                   st |-> "coll", el |-> <<>>, j |-> 0, acc |-> Null, collv |-> Null]),
                                           EvalF(as[1], f.p \o <<1>>, f.d, f.it, TRUE))
                          /\ ret' = None
                     [] k \in {K_all, K_some, K_none} ->
                          IF as[1].t = "o"
                          THEN \* computed collection: evaluate it first
                               /\ stack' = Push(SetTop([k |-> "quant", op |-> k, as |-> as, p |-> f.p, d |-> f.d, it |-> f.it,
                                                        st |-> "coll", lit |-> FALSE, el |-> <<>>, j |-> 0]),
                                                EvalF(as[1], f.p \o <<1>>, f.d, f.it, TRUE))
                               /\ ret' = None
                          ELSE IF as[1].t \notin {"a", "s", "z"} THEN stack' = Pop /\ ret' = Err
                          ELSE LET el == CASE as[1].t = "a" -> as[1].v
                                           [] as[1].t = "s" -> CharsOf(as[1])
                                           [] OTHER -> <<>>
                                   lit == as[1].t = "a"
                               IN IF el = <<>> THEN stack' = Pop /\ ret' = Ok(Bool(k = K_none))
                                  ELSE IF ~ParseOK(as[2]) THEN stack' = Pop /\ ret' = Err
                                  ELSE IF lit
                                  THEN \* literal array: its first element is rule text, evaluated against the outer data
                                       /\ stack' = Push(SetTop([k |-> "quant", op |-> k, as |-> as, p |-> f.p, d |-> f.d, it |-> f.it,
                                                                st |-> "item", lit |-> TRUE, el |-> el, j |-> 1]),
                                                        EvalF(el[1], f.p \o <<1, 1>>, f.d, f.it, TRUE))
                                       /\ ret' = None
                                  ELSE \* literal string: characters are data, go straight to the predicate
                                       /\ stack' = Push(SetTop([k |-> "quant", op |-> k, as |-> as, p |-> f.p, d |-> f.d, it |-> f.it,
                                                                st |-> "pred", lit |-> FALSE, el |-> el, j |-> 1]),
                                                        EvalF(as[2], f.p \o <<2>>, el[1], f.it \o <<1>>, FALSE))
                                       /\ ret' = None
  /\ UNCHANGED <<rule, data, out, phase>>

\* ---- eager / data operators: evaluate ANY pending operand next
EvalOperand ==
  /\ Running /\ Top.k = "args" /\ IsNone(ret) /\ Top.cur = 0 /\ Top.pending # {}
  /\ \E i \in Top.pending :
       stack' = Push(SetTop([Top EXCEPT !.pending = @ \ {i}, !.cur = i]),
                     EvalF(Top.as[i], Top.p \o <<i>>, Top.d, Top.it, FALSE))
  /\ UNCHANGED <<rule, data, ret, out, evals, dup, phase>>
OperandDone ==
  /\ Running /\ Top.k = "args" /\ ~IsNone(ret) /\ Top.cur # 0
  /\ IF ~ret.ok THEN stack' = Pop /\ ret' = Err
     ELSE stack' = SetTop([Top EXCEPT !.vals[Top.cur] = ret.v, !.cur = 0]) /\ ret' = None
  /\ UNCHANGED <<rule, data, out, evals, dup, phase>>
\* all operands are values: apply the operator's semantic function (log writes its line)
Apply ==
  /\ Running /\ Top.k = "args" /\ IsNone(ret) /\ Top.cur = 0 /\ Top.pending = {}
  /\ ret' = (IF Top.op \in DataOps THEN ApplyData(Top.op, Top.d, Top.vals) ELSE ApplyEager(Top.op, Top.vals))
  /\ out' = IF Top.op = K_log THEN Append(out, Top.vals[1]) ELSE out
  /\ stack' = Pop
  /\ UNCHANGED <<rule, data, evals, dup, phase>>

\* ---- if / ?:
IfStep ==
  /\ Running /\ Top.k = "if" /\ ~IsNone(ret)
  /\ LET f == Top
         n == Len(f.as)
     IN IF ~ret.ok THEN stack' = Pop /\ ret' = Err
        ELSE IF f.st = "branch" THEN stack' = Pop /\ ret' = ret
        ELSE IF f.i = n THEN stack' = Pop /\ ret' = ret                       \* else-operand / single operand
        ELSE IF Truthy(ret.v)
             THEN /\ stack' = Push(SetTop([f EXCEPT !.st = "branch"]), EvalF(f.as[f.i + 1], f.p \o <<f.i + 1>>, f.d, f.it, TRUE))
                  /\ ret' = None
        ELSE IF f.i + 2 > n THEN stack' = Pop /\ ret' = Ok(Null)
        ELSE /\ stack' = Push(SetTop([f EXCEPT !.i = @ + 2]), EvalF(f.as[f.i + 2], f.p \o <<f.i + 2>>, f.d, f.it, TRUE))
             /\ ret' = None
  /\ UNCHANGED <<rule, data, out, evals, dup, phase>>

\* ---- and / or
AndOrStep ==
  /\ Running /\ Top.k = "andor" /\ ~IsNone(ret)
  /\ LET f == Top
         n == Len(f.as)
     IN IF ~ret.ok THEN stack' = Pop /\ ret' = Err
        ELSE IF (f.op = K_and /\ ~Truthy(ret.v)) \/ (f.op = K_or /\ Truthy(ret.v)) \/ f.i = n
             THEN stack' = Pop /\ ret' = ret
        ELSE /\ stack' = Push(SetTop([f EXCEPT !.i = @ + 1]), EvalF(f.as[f.i + 1], f.p \o <<f.i + 1>>, f.d, f.it, TRUE))
             /\ ret' = None
  /\ UNCHANGED <<rule, data, out, evals, dup, phase>>

\* ---- map / filter: the element is the entire data of the expression
EachStep ==
  /\ Running /\ Top.k = "each" /\ ~IsNone(ret)
  /\ LET f == Top
     IN IF ~ret.ok THEN stack' = Pop /\ ret' = Err
        ELSE IF f.st = "coll"
             THEN IF ret.v.t \notin {"a", "z"} THEN stack' = Pop /\ ret' = Err
                  ELSE IF ~ParseOK(f.as[2]) THEN stack' = Pop /\ ret' = Err
                  ELSE LET el == IF ret.v.t = "z" THEN <<>> ELSE ret.v.v
                       IN IF el = <<>> THEN stack' = Pop /\ ret' = Ok(Arr(<<>>))
                          ELSE /\ stack' = Push(SetTop([f EXCEPT !.st = "each", !.el = el, !.j = 1]),
                                                EvalF(f.as[2], f.p \o <<2>>, el[1], f.it \o <<1>>, FALSE))
                               /\ ret' = None
        ELSE LET acc == IF f.op = K_map THEN Append(f.acc, ret.v)
                        ELSE IF Truthy(ret.v) THEN Append(f.acc, f.el[f.j]) ELSE f.acc
             IN IF f.j = Len(f.el) THEN stack' = Pop /\ ret' = Ok(Arr(acc))
                ELSE /\ stack' = Push(SetTop([f EXCEPT !.acc = acc, !.j = @ + 1]),
                                      EvalF(f.as[2], f.p \o <<2>>, f.el[f.j + 1], f.it \o <<f.j + 1>>, FALSE))
                     /\ ret' = None
  /\ UNCHANGED <<rule, data, out, evals, dup, phase>>

\* ---- reduce: collection, then initial value (both against the outer data), then the left fold
ReduceStep ==
  /\ Running /\ Top.k = "reduce" /\ ~IsNone(ret)
  /\ LET f == Top
     IN IF ~ret.ok THEN stack' = Pop /\ ret' = Err
        ELSE CASE f.st = "coll" ->
                    /\ stack' = Push(SetTop([f EXCEPT !.st = "init", !.collv = ret.v]),
                                     EvalF(f.as[3], f.p \o <<3>>, f.d, f.it, TRUE))
                    /\ ret' = None
               [] f.st = "init" ->
                    IF f.collv.t \notin {"a", "z"} THEN stack' = Pop /\ ret' = Err
                    ELSE IF ~ParseOK(f.as[2]) THEN stack' = Pop /\ ret' = Err
                    ELSE LET el == IF f.collv.t = "z" THEN <<>> ELSE f.collv.v
                         IN IF el = <<>> THEN stack' = Pop /\ ret' = Ok(ret.v)
                            ELSE /\ stack' = Push(SetTop([f EXCEPT !.st = "each", !.el = el, !.j = 1, !.acc = ret.v]),
                                                  EvalF(f.as[2], f.p \o <<2>>, ReduceCtx(el[1], ret.v), f.it \o <<1>>, FALSE))
                                 /\ ret' = None
               [] f.st = "each" ->
                    IF f.j = Len(f.el) THEN stack' = Pop /\ ret' = Ok(ret.v)
                    ELSE /\ stack' = Push(SetTop([f EXCEPT !.acc = ret.v, !.j = @ + 1]),
                                          EvalF(f.as[2], f.p \o <<2>>, ReduceCtx(f.el[f.j + 1], ret.v), f.it \o <<f.j + 1>>, FALSE))
                         /\ ret' = None
  /\ UNCHANGED <<rule, data, out, evals, dup, phase>>

\* ---- all / some / none
QuantStep ==
  /\ Running /\ Top.k = "quant" /\ ~IsNone(ret)
  /\ LET f == Top
     IN IF ~ret.ok THEN stack' = Pop /\ ret' = Err
        ELSE CASE f.st = "coll" ->
                    IF ret.v.t \notin {"a", "s", "z"} THEN stack' = Pop /\ ret' = Err
                    ELSE LET el == CASE ret.v.t = "a" -> ret.v.v
                                     [] ret.v.t = "s" -> CharsOf(ret.v)
                                     [] OTHER -> <<>>
                         IN IF el = <<>> THEN stack' = Pop /\ ret' = Ok(Bool(f.op = K_none))
                            ELSE IF ~ParseOK(f.as[2]) THEN stack' = Pop /\ ret' = Err
                            ELSE \* computed collection: its elements are DATA, go straight to the predicate
                                 /\ stack' = Push(SetTop([f EXCEPT !.st = "pred", !.el = el, !.j = 1]),
                                                  EvalF(f.as[2], f.p \o <<2>>, el[1], f.it \o <<1>>, FALSE))
                                 /\ ret' = None
               [] f.st = "item" ->   \* a literal element has been evaluated; now the predicate on its value
                    /\ stack' = Push(SetTop([f EXCEPT !.st = "pred"]), EvalF(f.as[2], f.p \o <<2>>, ret.v, f.it \o <<f.j>>, FALSE))
                    /\ ret' = None
               [] f.st = "pred" ->
                    LET t == Truthy(ret.v)
                        decided == IF f.op = K_all THEN ~t ELSE t
                    IN IF decided THEN stack' = Pop /\ ret' = Ok(Bool(f.op = K_some))
                       ELSE IF f.j = Len(f.el) THEN stack' = Pop /\ ret' = Ok(Bool(f.op # K_some))
                       ELSE IF f.lit
                            THEN /\ stack' = Push(SetTop([f EXCEPT !.st = "item", !.j = @ + 1]),
                                                  EvalF(f.el[f.j + 1], f.p \o <<1, f.j + 1>>, f.d, f.it, TRUE))
                                 /\ ret' = None
                            ELSE /\ stack' = Push(SetTop([f EXCEPT !.j = @ + 1]),
                                                  EvalF(f.as[2], f.p \o <<2>>, f.el[f.j + 1], f.it \o <<f.j + 1>>, FALSE))
                                 /\ ret' = None
  /\ UNCHANGED <<rule, data, out, evals, dup, phase>>

Finish == /\ phase = "run" /\ stack = <<>> /\ ~IsNone(ret) /\ phase' = "done"
          /\ UNCHANGED <<rule, data, stack, ret, out, evals, dup>>
Done == phase = "done" /\ UNCHANGED mvars

Step == Start \/ EvalOperand \/ OperandDone \/ Apply \/ IfStep \/ AndOrStep \/ EachStep \/ ReduceStep \/ QuantStep \/ Finish
MNext == Step \/ Done

(***************************************************************************)
(* Properties of the machine                                               *)
(***************************************************************************)
\* two independent formulations of the semantics coincide (logs: as a bag, and exactly when the
\* big-step order is the only admissible one)
SameBag(s1, s2) ==
  /\ Len(s1) = Len(s2)
  /\ \A j \in DOMAIN s1 : Cardinality({i \in DOMAIN s1 : SameValue(s1[i], s1[j])}) = Cardinality({i \in DOMAIN s2 : SameValue(s2[i], s1[j])})
Agreement ==
  phase = "done" =>
    LET e == Eval(rule, data)
    IN /\ ret.ok = e.ok
       /\ (e.ok => SameValue(ret.v, e.v))
       /\ (e.ok => SameBag(out, e.log))
\* C04: only rule text is ever on the control stack
ControlFromRuleText ==
  \A j \in DOMAIN stack : stack[j].k = "eval" => TermAt(rule, stack[j].p) = stack[j].term
\* C04: every operand expression is evaluated at most once per use
AtMostOncePerUse == ~dup
\* C01: the stack is bounded by the nesting depth of the rule
StackBound == Len(stack) <= 2 * Depth(rule) + 2
\* C17: the inputs are never modified
InputsImmutable == [][phase = "run" => (rule' = rule /\ data' = data)]_mvars
\* ---- step-wise (action) properties: they constrain EVERY transition of a behaviour, not only its terminal
\* state, and are checked both on the bounded families (MC_Machine) and along the executions recorded from the
\* code (TV_Events, where the machine is driven by the hook events)
SeqPrefix(a, b) == Len(a) <= Len(b) /\ \A j \in DOMAIN a : SameValue(a[j], b[j])
\* C17: a written log line is never retracted or rewritten, and a step writes at most one line
LogAppendOnly == [][phase = "run" => (SeqPrefix(out, out') /\ Len(out') <= Len(out) + 1)]_mvars
\* C01/C05: an error is never caught: once a frame has failed the stack only unwinds, nothing more is
\* evaluated and nothing more is written, until the call has finished
Failed == ~IsNone(ret) /\ ~ret.ok
ErrorsOnlyUnwind ==
  [][(phase = "run" /\ Failed) =>
       /\ ~IsNone(ret') /\ ~ret'.ok
       /\ Len(stack') <= Len(stack) /\ out' = out /\ evals' = evals]_mvars
\* the control stack moves by at most one frame per step and a step never touches the kind of a frame below the top
StackDiscipline ==
  [][phase = "run" =>
       /\ Len(stack') - Len(stack) \in {-1, 0, 1}
       /\ \A j \in 1..(Len(stack) - 1) : j <= Len(stack') => stack'[j].k = stack[j].k]_mvars
\* C04: the record of started evaluations only grows during a call; a finished call is final
HistoryGrows == [][phase = "run" => evals \subseteq evals']_mvars
DoneIsFinal == [][(phase = "done" /\ phase' = "done") => UNCHANGED <<ret, out, stack>>]_mvars
\* a sub-result is handed over exactly once: `ret` is consumed by the step that follows it (no step leaves a
\* finished sub-result lying while pushing new work)
RetConsumed == [][(phase = "run" /\ ~IsNone(ret) /\ ~IsNone(ret')) => Len(stack') < Len(stack) \/ phase' = "done"]_mvars
\* a value returned is always a JSON value; log lines are JSON values
ResultsWellFormed == (~IsNone(ret) /\ ret.ok => IsJson(ret.v)) /\ \A j \in DOMAIN out : IsJson(out[j])
\* C01: every behaviour terminates (checked under weak fairness of Step, no state constraint)
Termination == <>(phase = "done")

\* C05: which operands of a top-level if / ?: / and / or were entered
EnteredTop == {e[1][1] : e \in {x \in evals : Len(x[1]) = 1}}
RECURSIVE NeededIf(_, _, _), NeededAndOr(_, _, _, _)
\* declaratively, from the big-step values of the operands
NeededIf(as, j, d) ==
  IF j > Len(as) THEN {}
  ELSE LET c == EvL(as[j], d)
       IN IF ~c.ok \/ j = Len(as) THEN {j}
          ELSE IF Truthy(c.v) THEN {j, j + 1}
          ELSE {j} \cup NeededIf(as, j + 2, d)
NeededAndOr(k, as, j, d) ==
  IF j > Len(as) THEN {}
  ELSE LET c == EvL(as[j], d)
       IN IF ~c.ok \/ (k = K_and /\ ~Truthy(c.v)) \/ (k = K_or /\ Truthy(c.v)) THEN {j}
          ELSE {j} \cup NeededAndOr(k, as, j + 1, d)
OnlyNeeded ==
  phase = "done" /\ IsOperation(rule) /\ HeadOK(rule) /\ KeyOf(rule) \in {K_if, K_tern, K_and, K_or} =>
    EnteredTop = (IF KeyOf(rule) \in {K_if, K_tern} THEN NeededIf(Operands(rule), 1, data)
                  ELSE NeededAndOr(KeyOf(rule), Operands(rule), 1, data))
=============================================================================
