--------------------------------- MODULE Cli ---------------------------------
(***************************************************************************)
(* The `jsonlogic` command as a sequential protocol around apply           *)
(* (mirrors src/bin.rs): parse arguments, parse the rule text, select the  *)
(* data text (second argument, or standard input when it is omitted or     *)
(* "-"), parse it, evaluate (log lines go to standard output as they are   *)
(* emitted), print the result line, exit.                                  *)
(* Text <-> value conversion is not modelled: a text is                    *)
(*   [valid |-> TRUE, v |-> value]  or  [valid |-> FALSE, cls |-> class]   *)
(* and the harness supplies concrete texts for the classes.                *)
(* A second process can be chained: its standard input is the first        *)
(* process's standard output.                                              *)
(***************************************************************************)
EXTENDS JsonLogic

VARIABLES ruleText,    \* first argument
          dataArg,     \* second argument: [given |-> FALSE] | [given |-> TRUE, dash |-> BOOLEAN, text |-> text]
          stdin,       \* the text on standard input
          dataText,    \* the selected data text (None until selected)
          pc,          \* "start" "rule" "select" "data" "run" "emit" "print" "exit"
          pending,     \* log lines still to be written by the running evaluation
          outcome,     \* [ok, v] of the evaluation
          stdout,      \* lines written: sequence of values (each printed as one line of JSON text)
          status       \* exit status class: "none" | "zero" | "nonzero"

clivars == <<ruleText, dataArg, stdin, dataText, pc, pending, outcome, stdout, status>>

Valid(v) == [valid |-> TRUE, v |-> v]
Invalid(c) == [valid |-> FALSE, cls |-> c]
NoText == [valid |-> FALSE, cls |-> "unselected"]

CliInit(rt, da, si) ==
  /\ ruleText = rt /\ dataArg = da /\ stdin = si
  /\ dataText = NoText /\ pc = "start" /\ pending = <<>> /\ outcome = Err /\ stdout = <<>> /\ status = "none"

Die == pc' = "exit" /\ status' = "nonzero"

\* arguments are accepted as they are: a text starting with "-" (such as -1) is a text, not an option
ParseArgs == /\ pc = "start" /\ pc' = "rule"
             /\ UNCHANGED <<ruleText, dataArg, stdin, dataText, pending, outcome, stdout, status>>
ParseRule == /\ pc = "rule"
             /\ IF ruleText.valid THEN pc' = "select" /\ status' = status ELSE Die
             /\ UNCHANGED <<ruleText, dataArg, stdin, dataText, pending, outcome, stdout>>
SelectData == /\ pc = "select"
              /\ dataText' = IF dataArg.given /\ ~dataArg.dash THEN dataArg.text ELSE stdin
              /\ pc' = "data"
              /\ UNCHANGED <<ruleText, dataArg, stdin, pending, outcome, stdout, status>>
ParseData == /\ pc = "data"
             /\ IF dataText.valid THEN pc' = "run" /\ status' = status ELSE Die
             /\ UNCHANGED <<ruleText, dataArg, stdin, dataText, pending, outcome, stdout>>
Run == /\ pc = "run"
       /\ LET e == Eval(ruleText.v, dataText.v)
          IN pending' = e.log /\ outcome' = [ok |-> e.ok, v |-> e.v]
       /\ pc' = "emit"
       /\ UNCHANGED <<ruleText, dataArg, stdin, dataText, stdout, status>>
EmitLine == /\ pc = "emit" /\ pending # <<>>
            /\ stdout' = Append(stdout, Head(pending)) /\ pending' = Tail(pending)
            /\ UNCHANGED <<ruleText, dataArg, stdin, dataText, pc, outcome, status>>
Finished == /\ pc = "emit" /\ pending = <<>>
            /\ IF outcome.ok THEN pc' = "print" /\ status' = status ELSE Die
            /\ UNCHANGED <<ruleText, dataArg, stdin, dataText, pending, outcome, stdout>>
PrintResult == /\ pc = "print"
               /\ stdout' = Append(stdout, outcome.v)
               /\ pc' = "exit" /\ status' = "zero"
               /\ UNCHANGED <<ruleText, dataArg, stdin, dataText, pending, outcome>>
Exited == pc = "exit" /\ UNCHANGED clivars

CliNext == ParseArgs \/ ParseRule \/ SelectData \/ ParseData \/ Run \/ EmitLine \/ Finished \/ PrintResult \/ Exited

(***************************************************************************)
(* Properties                                                              *)
(***************************************************************************)
\* the text that the data-supply mode designates
Designated == IF dataArg.given /\ ~dataArg.dash THEN dataArg.text ELSE stdin
Wellformed == ruleText.valid /\ Designated.valid
Lib == Eval(ruleText.v, Designated.v)
\* exit 0: exactly the log lines followed by one result line; it is the library's result
SuccessDiscipline ==
  pc = "exit" /\ status = "zero" =>
    /\ Wellformed /\ Lib.ok
    /\ stdout = Append(Lib.log, Lib.v)
\* failure: no result line; only log lines written before the failure
FailureDiscipline ==
  pc = "exit" /\ status = "nonzero" =>
    \/ ~Wellformed /\ stdout = <<>>
    \/ Wellformed /\ ~Lib.ok /\ stdout = Lib.log
\* the command succeeds exactly when the texts are JSON and the library returns a value
SuccessIff == pc = "exit" => (status = "zero" <=> (Wellformed /\ Lib.ok))
StatusSet == pc = "exit" <=> status # "none"
\* stdout grows only by whole lines and never shrinks
AppendOnly == [][\E k \in 0..1 : Len(stdout') = Len(stdout) + k /\ SubSeq(stdout', 1, Len(stdout)) = stdout]_clivars
CliTermination == <>(pc = "exit")
=============================================================================
