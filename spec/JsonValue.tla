------------------------------ MODULE JsonValue ------------------------------
(***************************************************************************)
(* The JSON value algebra ("AJ" encoding, identical on the wire):          *)
(*   null    [t |-> "z"]                                                   *)
(*   bool    [t |-> "b", v |-> BOOLEAN]                                    *)
(*   string  [t |-> "s", v |-> Seq(code point)]                            *)
(*   array   [t |-> "a", v |-> Seq(value)]                                 *)
(*   object  [t |-> "o", v |-> Seq(<<key code points, value>>)] sorted     *)
(*   number  [t |-> "n", k |-> "i"|"f", s, m, e, x]                        *)
(*     k = "i": integer-spelled, exact magnitude m (BigNat), e = 0         *)
(*     k = "f": float-spelled, canonical binary64 (-1)^s * m * 2^e         *)
(*     x: the number's JSON text (code points) as the serialiser prints it;*)
(*        <<-1>> when the specification does not know it.                  *)
(***************************************************************************)
EXTENDS Float64, Names, TLC

Null == [t |-> "z"]
Bool(b) == [t |-> "b", v |-> b]
Str(cs) == [t |-> "s", v |-> cs]
Arr(xs) == [t |-> "a", v |-> xs]
Obj(kvs) == [t |-> "o", v |-> kvs]
True == Bool(TRUE)
False == Bool(FALSE)
UnknownText == <<-1>>

\* integer-spelled number from sign and BigNat magnitude (text computed)
IntNum(s, mag) == [t |-> "n", k |-> "i", s |-> IF mag = <<>> THEN 0 ELSE s, m |-> mag, e |-> 0,
                   x |-> (IF s = 1 /\ mag # <<>> THEN <<45>> ELSE <<>>) \o DecDigits(mag)]
\* small TLC integer as a JSON integer
IntV(n) == IF n < 0 THEN IntNum(1, FromSmall(-n)) ELSE IntNum(0, FromSmall(n))
\* float-spelled number from a finite canonical float; text unknown
FloatNum(f) == [t |-> "n", k |-> "f", s |-> f.s, m |-> f.m, e |-> f.e, x |-> UnknownText]

\* the double a JSON number denotes (serde's as_f64: integers round to nearest)
F(n) == IF n.k = "f" THEN Fin(n.s, n.m, n.e) ELSE FromInt(n.s, n.m)

IsNum(v) == v.t = "n"
IsStr(v) == v.t = "s"
IsArr(v) == v.t = "a"
IsObj(v) == v.t = "o"
IsNull(v) == v.t = "z"
IsBool(v) == v.t = "b"

\* structural identity, tag first (TLC's "=" throws on values of different kinds)
RECURSIVE SameValue(_, _)
SameValue(a, b) ==
  /\ a.t = b.t
  /\ CASE a.t = "z" -> TRUE
       [] a.t = "b" -> a.v = b.v
       [] a.t = "s" -> a.v = b.v
       [] a.t = "n" -> a.k = b.k /\ a.s = b.s /\ a.m = b.m /\ a.e = b.e
       [] a.t = "a" -> Len(a.v) = Len(b.v) /\ \A j \in DOMAIN a.v : SameValue(a.v[j], b.v[j])
       [] a.t = "o" -> Len(a.v) = Len(b.v) /\
                       \A j \in DOMAIN a.v : a.v[j][1] = b.v[j][1] /\ SameValue(a.v[j][2], b.v[j][2])

\* structural equality with numbers compared numerically (1 = 1.0 = 1e0, 0 = -0); objects are sorted
\* by key on both sides so key order is immaterial
RECURSIVE DeepNumEq(_, _)
DeepNumEq(a, b) ==
  /\ a.t = b.t
  /\ CASE a.t = "z" -> TRUE
       [] a.t = "b" -> a.v = b.v
       [] a.t = "s" -> a.v = b.v
       [] a.t = "n" -> FEq(F(a), F(b))
       [] a.t = "a" -> Len(a.v) = Len(b.v) /\ \A j \in DOMAIN a.v : DeepNumEq(a.v[j], b.v[j])
       [] a.t = "o" -> Len(a.v) = Len(b.v) /\
                       \A j \in DOMAIN a.v : a.v[j][1] = b.v[j][1] /\ DeepNumEq(a.v[j][2], b.v[j][2])

\* code-point lexicographic order on strings
RECURSIVE LexLt(_, _)
LexLt(a, b) == IF b = <<>> THEN FALSE
               ELSE IF a = <<>> THEN TRUE
               ELSE IF a[1] # b[1] THEN a[1] < b[1] ELSE LexLt(Tail(a), Tail(b))

\* object access by key (code points); objects are sequences of <<key, value>> pairs
HasKey(o, k) == \E j \in DOMAIN o.v : o.v[j][1] = k
GetKey(o, k) == o.v[CHOOSE j \in DOMAIN o.v : o.v[j][1] = k][2]
\* the two-key object {"accumulator": a, "current": c} (keys sorted)
ReduceCtx(c, a) == Obj(<< <<S_accumulator, a>>, <<S_current, c>> >>)

\* well-formedness
RECURSIVE IsJson(_)
IsJson(v) ==
  CASE v.t = "z" -> TRUE
    [] v.t = "b" -> v.v \in BOOLEAN
    [] v.t = "s" -> \A j \in DOMAIN v.v : v.v[j] \in 0..1114111
    [] v.t = "n" -> /\ v.k \in {"i", "f"} /\ v.s \in {0, 1}
                    /\ (v.k = "i" => v.e = 0 /\ (v.m = <<>> => v.s = 0))
    [] v.t = "a" -> \A j \in DOMAIN v.v : IsJson(v.v[j])
    [] v.t = "o" -> /\ \A j \in DOMAIN v.v : IsJson(v.v[j][2])
                    /\ \A j \in 1..(Len(v.v) - 1) : LexLt(v.v[j][1], v.v[j + 1][1])
    [] OTHER -> FALSE

RECURSIVE Depth(_)
Max2(a, b) == IF a > b THEN a ELSE b
RECURSIVE MaxDepth(_, _)
MaxDepth(xs, i) == IF i > Len(xs) THEN 0 ELSE Max2(Depth(xs[i]), MaxDepth(xs, i + 1))
Depth(v) == CASE v.t = "a" -> 1 + MaxDepth(v.v, 1)
              [] v.t = "o" -> 1 + MaxDepth([j \in DOMAIN v.v |-> v.v[j][2]], 1)
              [] OTHER -> 0

\* evaluation results
Ok(v) == [ok |-> TRUE, v |-> v]
Err == [ok |-> FALSE, v |-> Null]
\* an error whose variant of the public error enumeration (src/error.rs) the specification names:
\* the name travels in v as a string; Err (v = null) leaves the variant open
ErrK(kind) == [ok |-> FALSE, v |-> Str(kind)]
=============================================================================
