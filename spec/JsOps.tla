-------------------------------- MODULE JsOps --------------------------------
(***************************************************************************)
(* JavaScript-style coercions and the pure operators built on them         *)
(* (mirrors src/js_op.rs, src/value.rs to_number_value, op/logic.rs truthy)*)
(* The ES algorithms are transcribed from ECMA-262: IsLooselyEqual 7.2.14, *)
(* IsStrictlyEqual 7.2.15, IsLessThan 7.2.13, ToNumber 7.1.4, ToString.    *)
(***************************************************************************)
EXTENDS NumText

\* ---- ToString (JS): null "null" but "" inside arrays; arrays comma-joined; objects "[object Object]";
\* a number's string form is its JSON text
RECURSIVE ToStringJS(_), JoinElems(_, _)
ToStringJS(v) ==
  CASE v.t = "z" -> S_null
    [] v.t = "b" -> IF v.v THEN S_true ELSE S_false
    [] v.t = "n" -> NumText(v)
    [] v.t = "s" -> v.v
    [] v.t = "a" -> JoinElems(v.v, 1)
    [] v.t = "o" -> S_objobj
JoinElems(xs, i) ==
  IF i > Len(xs) THEN <<>>
  ELSE (IF xs[i].t = "z" THEN <<>> ELSE ToStringJS(xs[i]))
       \o (IF i < Len(xs) THEN <<44>> ELSE <<>>) \o JoinElems(xs, i + 1)

\* a string form that depends on a number text the specification does not know
TextUnknown(cs) == \E j \in DOMAIN cs : cs[j] = -1

\* ---- truthiness: the JsonLogic table, stated twice
Truthy(x) == CASE x.t = "z" -> FALSE
               [] x.t = "b" -> x.v
               [] x.t = "n" -> x.m # <<>>
               [] x.t = "s" -> x.v # <<>>
               [] x.t = "a" -> x.v # <<>>
               [] x.t = "o" -> TRUE
\* declaratively: falsy values are exactly false, null, zero (incl. -0), "" and []
IsFalsy(x) == \/ x.t = "z"
              \/ (x.t = "b" /\ x.v = FALSE)
              \/ (x.t = "n" /\ IsZero(F(x)))
              \/ (x.t = "s" /\ Len(x.v) = 0)
              \/ (x.t = "a" /\ Len(x.v) = 0)

\* ---- ToPrimitive (hint number) and ToNumber
Prim(v) == CASE v.t = "z" -> [k |-> "num", f |-> FZero]
             [] v.t = "b" -> [k |-> "num", f |-> IF v.v THEN FOne ELSE FZero]
             [] v.t = "n" -> [k |-> "num", f |-> F(v)]
             [] OTHER -> [k |-> "str", s |-> ToStringJS(v)]
ToNumber(v) == LET p == Prim(v) IN IF p.k = "num" THEN p.f ELSE StringToNumber(p.s)

\* ---- == (IsLooselyEqual), clause numbers of ECMA-262 7.2.14; arrays/objects are distinct instances
BoolNum(b) == [t |-> "n", k |-> "i", s |-> 0, m |-> IF b.v THEN One ELSE <<>>, e |-> 0,
               x |-> IF b.v THEN <<49>> ELSE <<48>>]
RECURSIVE AbstractEq(_, _)
AbstractEq(x, y) ==
  CASE x.t = "z" /\ y.t = "z" -> TRUE                                          \* 1 (same type)
    [] x.t = "n" /\ y.t = "n" -> FEq(F(x), F(y))
    [] x.t = "s" /\ y.t = "s" -> x.v = y.v
    [] x.t = "b" /\ y.t = "b" -> x.v = y.v
    [] x.t = "n" /\ y.t = "s" -> FEq(F(x), StringToNumber(y.v))                \* 5
    [] x.t = "s" /\ y.t = "n" -> FEq(StringToNumber(x.v), F(y))                \* 6
    [] x.t = "b" -> AbstractEq(BoolNum(x), y)                                   \* 9
    [] y.t = "b" -> AbstractEq(x, BoolNum(y))                                   \* 10
    [] x.t \in {"s", "n"} /\ y.t \in {"a", "o"} -> AbstractEq(x, Str(ToStringJS(y)))  \* 11
    [] x.t \in {"a", "o"} /\ y.t \in {"s", "n"} -> AbstractEq(Str(ToStringJS(x)), y)  \* 12
    [] OTHER -> FALSE      \* null vs non-null, container vs container (distinct instances)
AbstractNe(x, y) == ~AbstractEq(x, y)

\* ---- === (IsStrictlyEqual) on freshly evaluated operands
StrictEq(x, y) ==
  CASE x.t = "z" /\ y.t = "z" -> TRUE
    [] x.t = "b" /\ y.t = "b" -> x.v = y.v
    [] x.t = "n" /\ y.t = "n" -> FEq(F(x), F(y))
    [] x.t = "s" /\ y.t = "s" -> x.v = y.v
    [] OTHER -> FALSE
StrictNe(x, y) == ~StrictEq(x, y)

\* ---- IsLessThan: "T" / "F" / "U"(ndefined)
LtRes(x, y) ==
  LET px == Prim(x)
      py == Prim(y)
  IN IF px.k = "str" /\ py.k = "str"
     THEN (IF LexLt(px.s, py.s) THEN "T" ELSE "F")
     ELSE FLt(IF px.k = "num" THEN px.f ELSE StringToNumber(px.s),
              IF py.k = "num" THEN py.f ELSE StringToNumber(py.s))
Lt(x, y)  == LtRes(x, y) = "T"
Gt(x, y)  == LtRes(y, x) = "T"
Lte(x, y) == LtRes(y, x) = "F"      \* ES: a <= b is not (b < a), undefined -> false
Gte(x, y) == LtRes(x, y) = "F"

RelOp(k, a, b) == CASE k = K_lt -> Lt(a, b) [] k = K_lte -> Lte(a, b)
                    [] k = K_gt -> Gt(a, b) [] k = K_gte -> Gte(a, b)
\* two operands: the comparison; three: conjunction of the adjacent comparisons (between)
Compare(k, vs) == IF Len(vs) = 2 THEN RelOp(k, vs[1], vs[2])
                  ELSE RelOp(k, vs[1], vs[2]) /\ RelOp(k, vs[2], vs[3])

\* ---- numbers out: the JSON number for a computed double, or Err when not finite
NumberToValue(f) ==
  IF f.k # "fin" THEN ErrK(EK_UnexpectedError)
  ELSE IF FitsI64(f) THEN Ok(IntNum(f.s, IntMag(f)))
  ELSE IF FitsU64(f) THEN Ok(IntNum(0, IntMag(f)))
  ELSE Ok(FloatNum(f))

\* ---- parseFloat-style operand conversion (for + and *)
ParseFloatV(v) == CASE v.t = "n" -> F(v)
                    [] v.t = "s" -> ParseFloat(v.v)
                    [] OTHER -> ParseFloat(ToStringJS(v))

RECURSIVE FoldF(_, _, _, _)
\* fold op over the doubles fs[i..], NaN operand => NaN marker "bad"
FoldF(op, fs, i, acc) ==
  IF i > Len(fs) THEN acc
  ELSE FoldF(op, fs, i + 1, IF op = "add" THEN FAdd(acc, fs[i]) ELSE FMul(acc, fs[i]))

AnyNaN(fs) == \E j \in DOMAIN fs : fs[j].k = "nan"

Add(vs) == LET fs == [j \in DOMAIN vs |-> ParseFloatV(vs[j])]
           IN IF AnyNaN(fs) THEN ErrK(EK_InvalidArgument) ELSE NumberToValue(FoldF("add", fs, 1, FZero))
Mul(vs) == LET fs == [j \in DOMAIN vs |-> ParseFloatV(vs[j])]
           IN IF AnyNaN(fs) THEN ErrK(EK_InvalidArgument) ELSE NumberToValue(FoldF("mul", fs, 1, FOne))

\* Number-style conversion for - / % min max
Minus(vs) == LET fs == [j \in DOMAIN vs |-> ToNumber(vs[j])]
             IN IF AnyNaN(fs) THEN ErrK(EK_InvalidArgument)
                ELSE IF Len(vs) = 1 THEN NumberToValue(FNeg(fs[1]))
                ELSE NumberToValue(FSub(fs[1], fs[2]))
Div(vs) == LET fs == [j \in DOMAIN vs |-> ToNumber(vs[j])]
           IN IF AnyNaN(fs) THEN ErrK(EK_InvalidArgument) ELSE NumberToValue(FDiv(fs[1], fs[2]))
Mod(vs) == LET fs == [j \in DOMAIN vs |-> ToNumber(vs[j])]
           IN IF AnyNaN(fs) THEN ErrK(EK_InvalidArgument) ELSE NumberToValue(FRem(fs[1], fs[2]))
RECURSIVE FoldMax(_, _, _), FoldMin(_, _, _)
FoldMax(fs, i, acc) == IF i > Len(fs) THEN acc
                       ELSE FoldMax(fs, i + 1, IF FLtB(acc, fs[i]) THEN fs[i] ELSE acc)
FoldMin(fs, i, acc) == IF i > Len(fs) THEN acc
                       ELSE FoldMin(fs, i + 1, IF FLtB(fs[i], acc) THEN fs[i] ELSE acc)
MaxOp(vs) == LET fs == [j \in DOMAIN vs |-> ToNumber(vs[j])]
             IN IF AnyNaN(fs) THEN ErrK(EK_InvalidArgument) ELSE NumberToValue(FoldMax(fs, 1, NInf))
MinOp(vs) == LET fs == [j \in DOMAIN vs |-> ToNumber(vs[j])]
             IN IF AnyNaN(fs) THEN ErrK(EK_InvalidArgument) ELSE NumberToValue(FoldMin(fs, 1, PInf))
=============================================================================
