------------------------------- MODULE Float64 -------------------------------
(***************************************************************************)
(* IEEE-754 binary64 as a soft-float over BigNat.                          *)
(* Values: Fin(s, m, e) = (-1)^s * m * 2^e, canonical: m in [2^52, 2^53)   *)
(* or e = -1074 (subnormal), zero = Fin(s, <<>>, 0); PInf, NInf, NaN.      *)
(* Round(s, M, E, sticky) is the single rounding point (nearest-even).     *)
(***************************************************************************)
EXTENDS BigNat

Fin(s, m, e) == [k |-> "fin", s |-> s, m |-> m, e |-> e]
Inf(s) == [k |-> IF s = 0 THEN "pinf" ELSE "ninf"]
PInf == Inf(0)
NInf == Inf(1)
NaN == [k |-> "nan"]
FZero == Fin(0, <<>>, 0)
FNegZero == Fin(1, <<>>, 0)
FOne == Fin(0, <<0, 0, 0, 128>>, -52)

IsFinite(x) == x.k = "fin"
IsNaN(x) == x.k = "nan"
IsZero(x) == x.k = "fin" /\ x.m = <<>>
Sgn(x) == IF x.k = "fin" THEN x.s ELSE IF x.k = "pinf" THEN 0 ELSE 1

\* value (-1)^s * M * 2^E (+ a nonzero amount below the last bit of M iff sticky), rounded to nearest-even
Round(s, M, E, sticky) ==
  IF M = <<>> THEN Fin(s, <<>>, 0)
  ELSE LET L == BitLen(M)
           e1 == IF E + L - 53 > -1074 THEN E + L - 53 ELSE -1074
           sh == e1 - E
       IN IF sh <= 0 THEN (IF e1 > 971 THEN Inf(s) ELSE Fin(s, Shl(M, -sh), e1))
          ELSE LET q == ShrQ(M, sh)
                   g == BitAt(M, sh - 1)
                   st == sticky \/ LowNonZero(M, sh - 1)
                   odd == q # <<>> /\ q[1] % 2 = 1
                   up == g = 1 /\ (st \/ odd)
                   q1 == IF up THEN BAdd(q, One) ELSE q
                   ovf == BitLen(q1) = 54
                   q2 == IF ovf THEN ShrQ(q1, 1) ELSE q1
                   e2 == IF ovf THEN e1 + 1 ELSE e1
               IN IF q2 = <<>> THEN Fin(s, <<>>, 0)
                  ELSE IF e2 > 971 THEN Inf(s) ELSE Fin(s, q2, e2)

\* canonical form of an exactly representable m * 2^e
Canon(s, m, e) == Round(s, m, e, FALSE)

FNeg(x) == CASE x.k = "fin" -> Fin(1 - x.s, x.m, x.e)
             [] x.k = "pinf" -> Inf(1)
             [] x.k = "ninf" -> Inf(0)
             [] OTHER -> NaN

FAdd(x, y) ==
  CASE x.k = "nan" \/ y.k = "nan" -> NaN
    [] x.k = "pinf" -> IF y.k = "ninf" THEN NaN ELSE x
    [] x.k = "ninf" -> IF y.k = "pinf" THEN NaN ELSE x
    [] y.k \in {"pinf", "ninf"} -> y
    [] IsZero(x) /\ IsZero(y) -> Fin(IF x.s = 1 /\ y.s = 1 THEN 1 ELSE 0, <<>>, 0)
    [] IsZero(x) -> y
    [] IsZero(y) -> x
    [] OTHER -> LET e == IF x.e < y.e THEN x.e ELSE y.e
                    a == Shl(x.m, x.e - e)
                    b == Shl(y.m, y.e - e)
                IN IF x.s = y.s THEN Round(x.s, BAdd(a, b), e, FALSE)
                   ELSE LET c == BCmp(a, b)
                        IN IF c = 0 THEN Fin(0, <<>>, 0)
                           ELSE IF c > 0 THEN Round(x.s, BSub(a, b), e, FALSE)
                           ELSE Round(y.s, BSub(b, a), e, FALSE)
FSub(x, y) == FAdd(x, FNeg(y))

FMul(x, y) ==
  CASE x.k = "nan" \/ y.k = "nan" -> NaN
    [] x.k \in {"pinf", "ninf"} \/ y.k \in {"pinf", "ninf"} ->
         IF IsZero(x) \/ IsZero(y) THEN NaN ELSE Inf((Sgn(x) + Sgn(y)) % 2)
    [] IsZero(x) \/ IsZero(y) -> Fin((x.s + y.s) % 2, <<>>, 0)
    [] OTHER -> Round((x.s + y.s) % 2, BMul(x.m, y.m), x.e + y.e, FALSE)

FDiv(x, y) ==
  CASE x.k = "nan" \/ y.k = "nan" -> NaN
    [] x.k \in {"pinf", "ninf"} ->
         IF y.k \in {"pinf", "ninf"} THEN NaN ELSE Inf((Sgn(x) + Sgn(y)) % 2)
    [] y.k \in {"pinf", "ninf"} -> Fin((Sgn(x) + Sgn(y)) % 2, <<>>, 0)
    [] IsZero(y) -> IF IsZero(x) THEN NaN ELSE Inf((x.s + y.s) % 2)
    [] IsZero(x) -> Fin((x.s + y.s) % 2, <<>>, 0)
    [] OTHER -> LET k0 == 56 + BitLen(y.m) - BitLen(x.m)
                    k == IF k0 > 0 THEN k0 ELSE 0
                    qr == BDivMod(Shl(x.m, k), y.m)
                IN Round((x.s + y.s) % 2, qr[1], x.e - y.e - k, qr[2] # <<>>)

\* n mod d (remainder only), schoolbook
RECURSIVE ModLoop(_, _, _)
ModLoop(n, d, i) ==
  IF i < 0 THEN n
  ELSE LET c == Shl(d, i)
       IN ModLoop(IF BCmp(n, c) >= 0 THEN BSub(n, c) ELSE n, d, i - 1)
BMod(n, d) == IF BCmp(n, d) < 0 THEN n ELSE ModLoop(n, d, BitLen(n) - BitLen(d))
\* 2^n mod y by square-and-multiply
RECURSIVE PowMod2(_, _)
PowMod2(n, y) ==
  IF n = 0 THEN BMod(One, y)
  ELSE LET h == PowMod2(n \div 2, y)
           sq == BMod(BMul(h, h), y)
       IN IF n % 2 = 0 THEN sq ELSE BMod(Shl(sq, 1), y)
\* (2^n * r) mod y
DoubleMod(r, n, y) == IF r = <<>> THEN r
                      ELSE IF n <= 64 THEN BMod(Shl(r, n), y)
                      ELSE BMod(BMul(r, PowMod2(n, y)), y)

\* C fmod / ECMAScript % / Rust f64 % : truncated remainder, sign of the dividend, always exact
FRem(x, y) ==
  CASE x.k = "nan" \/ y.k = "nan" -> NaN
    [] x.k \in {"pinf", "ninf"} -> NaN
    [] IsZero(y) -> NaN
    [] y.k \in {"pinf", "ninf"} -> x
    [] IsZero(x) -> x
    [] OTHER ->
       IF x.e >= y.e
       THEN \* |x| = x.m * 2^(x.e - y.e) * 2^y.e, |y| = y.m * 2^y.e
            LET r0 == BDivMod(x.m, y.m)[2]
                r == DoubleMod(r0, x.e - y.e, y.m)
            IN IF r = <<>> THEN Fin(x.s, <<>>, 0) ELSE Round(x.s, r, y.e, FALSE)
       ELSE \* |y| = y.m * 2^(y.e - x.e) * 2^x.e
            LET yy == Shl(y.m, y.e - x.e)
                r == IF BCmp(x.m, yy) < 0 THEN x.m ELSE BDivMod(x.m, yy)[2]
            IN IF r = <<>> THEN Fin(x.s, <<>>, 0) ELSE Round(x.s, r, x.e, FALSE)

\* numeric equality and order (IEEE: NaN unordered, -0 = +0)
FEq(x, y) == CASE x.k = "nan" \/ y.k = "nan" -> FALSE
               [] IsZero(x) /\ IsZero(y) -> TRUE
               [] OTHER -> x = y

\* magnitude order of two finite nonzero canonical floats
MagLt(x, y) == LET bx == BitLen(x.m) + x.e
                   by == BitLen(y.m) + y.e
               IN IF bx # by THEN bx < by
                  ELSE LET e == IF x.e < y.e THEN x.e ELSE y.e
                       IN BCmp(Shl(x.m, x.e - e), Shl(y.m, y.e - e)) < 0
FLtB(x, y) == CASE x.k = "pinf" -> FALSE
                [] y.k = "ninf" -> FALSE
                [] x.k = "ninf" -> TRUE
                [] y.k = "pinf" -> TRUE
                [] IsZero(x) /\ IsZero(y) -> FALSE
                [] IsZero(x) -> y.s = 0
                [] IsZero(y) -> x.s = 1
                [] x.s # y.s -> x.s = 1
                [] x.s = 0 -> MagLt(x, y)
                [] OTHER -> MagLt(y, x)
\* three-valued: "T", "F", "U" (undefined: a NaN is involved)
FLt(x, y) == IF x.k = "nan" \/ y.k = "nan" THEN "U" ELSE IF FLtB(x, y) THEN "T" ELSE "F"

\* integer (sign, BigNat magnitude) to the nearest double
FromInt(s, mag) == Round(s, mag, 0, FALSE)

\* D * 10^k (D BigNat, k integer, |k| <= Pow10Max) correctly rounded
FromDecimal(s, D, k) ==
  IF D = <<>> THEN Fin(s, <<>>, 0)
  ELSE IF k >= 0 THEN Round(s, BMul(D, Pow10(k)), 0, FALSE)
  ELSE LET den == Pow10(-k)
           t0 == 56 + BitLen(den) - BitLen(D)
           t == IF t0 > 0 THEN t0 ELSE 0
           qr == BDivMod(Shl(D, t), den)
       IN Round(s, qr[1], -t, qr[2] # <<>>)

\* is the finite value an integer?  (zero counts)
IsIntegral(x) == x.k = "fin" /\ (x.m = <<>> \/ x.e >= 0 \/ (-x.e <= 52 /\ ~LowNonZero(x.m, -x.e)))
\* |x| as a BigNat, for integral finite x with magnitude below 2^70
IntMag(x) == IF x.m = <<>> THEN <<>> ELSE IF x.e >= 0 THEN Shl(x.m, x.e) ELSE ShrQ(x.m, -x.e)
\* bit length of |x| for integral nonzero x
IntBits(x) == BitLen(x.m) + x.e

Two63 == Shl(One, 63)
FitsI64(x) == /\ IsIntegral(x)
              /\ \/ x.m = <<>>
                 \/ IntBits(x) <= 63
                 \/ (x.s = 1 /\ IntBits(x) = 64 /\ IntMag(x) = Two63)
FitsU64(x) == IsIntegral(x) /\ (x.m = <<>> \/ (x.s = 0 /\ IntBits(x) <= 64))

(***************************************************************************)
(* Declarative statement of IEEE round-to-nearest-even, used to check the  *)
(* algorithm above against the definition: r is the correct rounding of    *)
(* the exact value M * 2^E (no sticky) iff no representable neighbour is   *)
(* closer, ties to even mantissa.  Stated for finite nonzero results.      *)
(***************************************************************************)
\* exact comparison |2 * (M*2^E - r.m*2^r.e)| <= 2^r.e  (ulp of r), tie => r.m even
NearestEven(M, E, r) ==
  \/ r.k # "fin"                     \* overflow checked separately
  \/ LET e == IF E < r.e THEN E ELSE r.e
         a == Shl(M, E - e)          \* exact value scaled
         b == Shl(r.m, r.e - e)      \* rounded value scaled
         d == IF BCmp(a, b) >= 0 THEN BSub(a, b) ELSE BSub(b, a)
         ulp == Shl(One, r.e - e)
         c == BCmp(Shl(d, 1), ulp)
     IN c < 0 \/ (c = 0 /\ (r.m = <<>> \/ r.m[1] % 2 = 0))
=============================================================================
