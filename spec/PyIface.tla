------------------------------- MODULE PyIface -------------------------------
(***************************************************************************)
(* The Python module (py/jsonlogic_rs/__init__.py + python_iface in        *)
(* src/lib.rs) as a sequence of steps around the library:                  *)
(*   FillDefaults -> Serialize -> Native (parse texts, evaluate, print or  *)
(*   ValueError) -> Deserialize -> Return | Raise.                         *)
(* apply(value, data=None, serializer=None, deserializer=None)             *)
(* apply_serialized(value_text, data_text=None, deserializer=None)         *)
(* JSON (de)serialisation itself is not modelled: a text is                *)
(* [valid |-> TRUE, v |-> value] or [valid |-> FALSE, cls |-> class];      *)
(* a supplied serializer / deserializer is an opaque callable that must be *)
(* used as given (the result then carries its tag).                        *)
(***************************************************************************)
EXTENDS JsonLogic

VARIABLES entry,        \* "apply" | "apply_serialized"
          argValue,     \* apply: a JSON-representable object [valid, v] ; apply_serialized: a text
          argData,      \* [given |-> FALSE] | [given |-> TRUE, x |-> object or text]
          argSer,       \* "omitted" | "custom"       (apply only)
          argDeser,     \* "omitted" | "custom"
          pyc,          \* "start" "serialize" "native" "deserialize" "done"
          ser, deser,   \* the callables in effect after FillDefaults: "std" | "custom"
          texts,        \* <<rule text, data text>> handed to the native function
          serCalls,     \* how many times the serializer in effect was called
          nativeOut,    \* None | [ok |-> TRUE, text |-> value] | [ok |-> FALSE]
          result        \* None | [kind |-> "return", v |-> value, via |-> "std"|"custom"] | [kind |-> "raise", exc |-> "ValueError"]

pyvars == <<entry, argValue, argData, argSer, argDeser, pyc, ser, deser, texts, serCalls, nativeOut, result>>
PNone == [none |-> TRUE]
NullText == [valid |-> TRUE, v |-> Null]

PyInit(e, v, d, s, ds) ==
  /\ entry = e /\ argValue = v /\ argData = d /\ argSer = s /\ argDeser = ds
  /\ pyc = "start" /\ ser = "std" /\ deser = "std" /\ texts = <<NullText, NullText>>
  /\ serCalls = 0 /\ nativeOut = PNone /\ result = PNone

\* omitted optional arguments get their defaults: data = None (null), the standard encoder / decoder
FillDefaults ==
  /\ pyc = "start"
  /\ ser' = IF entry = "apply" /\ argSer = "custom" THEN "custom" ELSE "std"
  /\ deser' = IF argDeser = "custom" THEN "custom" ELSE "std"
  /\ pyc' = IF entry = "apply" THEN "serialize" ELSE "native"
  /\ texts' = IF entry = "apply" THEN texts
              ELSE <<argValue, IF argData.given THEN argData.x ELSE NullText>>
  /\ UNCHANGED <<entry, argValue, argData, argSer, argDeser, serCalls, nativeOut, result>>
\* apply: both arguments are JSON-encoded with the serializer in effect (two calls)
PySerialize ==
  /\ pyc = "serialize"
  /\ texts' = <<argValue, IF argData.given THEN argData.x ELSE NullText>>
  /\ serCalls' = 2
  /\ pyc' = "native"
  /\ UNCHANGED <<entry, argValue, argData, argSer, argDeser, ser, deser, nativeOut, result>>
\* the native function: malformed text or a library error is a ValueError, else the printed result
Native ==
  /\ pyc = "native"
  /\ IF ~texts[1].valid \/ ~texts[2].valid
     THEN nativeOut' = [ok |-> FALSE]
     ELSE LET e == Eval(texts[1].v, texts[2].v)
          IN nativeOut' = IF e.ok THEN [ok |-> TRUE, text |-> e.v] ELSE [ok |-> FALSE]
  /\ pyc' = "deserialize"
  /\ UNCHANGED <<entry, argValue, argData, argSer, argDeser, ser, deser, texts, serCalls, result>>
PyDeserialize ==
  /\ pyc = "deserialize"
  /\ result' = IF nativeOut.ok THEN [kind |-> "return", v |-> nativeOut.text, via |-> deser]
               ELSE [kind |-> "raise", exc |-> "ValueError"]
  /\ pyc' = "done"
  /\ UNCHANGED <<entry, argValue, argData, argSer, argDeser, ser, deser, texts, serCalls, nativeOut>>
PyDone == pyc = "done" /\ UNCHANGED pyvars
PyNext == FillDefaults \/ PySerialize \/ Native \/ PyDeserialize \/ PyDone

(***************************************************************************)
(* Properties                                                              *)
(***************************************************************************)
\* the module adds only (de)serialisation: the value returned is the library's value for the
\* encoded arguments, an omitted data argument meaning null
ValueIn == argValue
DataIn == IF argData.given THEN argData.x ELSE NullText
OnlySerialisation ==
  pyc = "done" =>
    IF ValueIn.valid /\ DataIn.valid /\ Eval(ValueIn.v, DataIn.v).ok
    THEN result.kind = "return" /\ SameValue(result.v, Eval(ValueIn.v, DataIn.v).v)
    ELSE result.kind = "raise" /\ result.exc = "ValueError"
\* omitted callables mean the standard ones; supplied ones are used as given
DefaultsAndCallables ==
  pyc = "done" =>
    /\ (result.kind = "return" => result.via = (IF argDeser = "custom" THEN "custom" ELSE "std"))
    /\ (entry = "apply" => serCalls = 2 /\ ser = (IF argSer = "custom" THEN "custom" ELSE "std"))
    /\ (entry = "apply_serialized" => serCalls = 0)
PyTermination == <>(pyc = "done")
=============================================================================
