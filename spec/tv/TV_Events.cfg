INIT TInit
NEXT TNext
CONSTRAINT MaxL
INVARIANT AtMostOncePerUse ControlFromRuleText ResultsWellFormed
PROPERTY LogAppendOnly ErrorsOnlyUnwind StackDiscipline HistoryGrows RetConsumed
POSTCONDITION Accepted
CHECK_DEADLOCK FALSE
