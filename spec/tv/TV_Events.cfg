INIT TInit
NEXT TNext
CONSTRAINT MaxL
INVARIANT AtMostOncePerUse ControlFromRuleText ResultsWellFormed
POSTCONDITION Accepted
CHECK_DEADLOCK FALSE
