----------------------------- MODULE TV_NumText -----------------------------
(***************************************************************************)
(* Conformance of NumText!FloatText with the real serialiser: records are  *)
(* float-spelled numbers (bits + the text the library printed).            *)
(***************************************************************************)
EXTENDS NumText, Json, IOUtils, TLCExt
Recs == ndJsonDeserialize(IOEnv.VERIF_TRACE)
VARIABLES i, verdict
Init == i \in 1..Len(Recs) /\ verdict = "new"
Next == verdict = "new" /\ UNCHANGED i
        /\ verdict' = IF Recs[i].k = "i" \/ FloatText(Fin(Recs[i].s, Recs[i].m, Recs[i].e)) = Recs[i].x THEN "ok" ELSE "bad"
Spec == Init /\ [][Next]_<<i, verdict>>
Report == verdict # "bad" \/ PrintT(<<"BADTEXT", i, FloatText(Fin(Recs[i].s, Recs[i].m, Recs[i].e)), Recs[i].x>>)
=============================================================================
