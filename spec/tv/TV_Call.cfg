SPECIFICATION Spec
INVARIANT Report
POSTCONDITION AllSeen
CHECK_DEADLOCK FALSE
