----------------------------- MODULE TV_Events -----------------------------
(***************************************************************************)
(* Trace validation (implementation -> specification): a stream of hook    *)
(* events recorded from the real interpreter                               *)
(*    call(rule, data)  enter(kind, symbol, depth)*  log(value)*  ret(..)  *)
(* must be explainable as a behaviour of Machine.  One trace action per    *)
(* event kind; the machine's remaining steps are silent (they leave the    *)
(* event index unchanged and are bounded: every step decreases the         *)
(* machine's measure).  The machine is nondeterministic in the order of    *)
(* eager operands, so TLC searches for an explaining behaviour.            *)
(* Acceptance: the highest event index consumed (register 1) must reach    *)
(* the end of the stream; otherwise the first unmatched event is printed.  *)
(* Run with -workers 1 and the depth-first StateDeque queue.               *)
(***************************************************************************)
EXTENDS Machine, Json, IOUtils, TLCExt

Evs == ndJsonDeserialize(IOEnv.VERIF_TRACE)
NEv == Len(Evs)

VARIABLE l
tvars == <<rule, data, phase, stack, ret, out, evals, dup, l>>

IsEvent(e) == l <= NEv /\ Evs[l].ev = e /\ l' = l + 1

TCall == /\ IsEvent("call") /\ phase \in {"idle", "done"}
         /\ StartCall(Evs[l].rule, Evs[l].data)

TopIsEval == Running /\ Top.k = "eval" /\ IsNone(ret)
StartFails == TopIsEval /\ Top.chk /\ ~ParseOK(Top.term)

\* entering an operation node: the pending evaluation is an operation with that symbol at that depth
TEnterOp == /\ IsEvent("enter") /\ Evs[l].kind # "raw"
            /\ TopIsEval /\ ~StartFails /\ IsOperation(Top.term)
            /\ KeyOf(Top.term) = Evs[l].sym
            /\ Evs[l].kind = (IF KeyOf(Top.term) \in EagerOps THEN "eager" ELSE IF KeyOf(Top.term) \in DataOps THEN "data" ELSE "lazy")
            /\ Len(stack) = Evs[l].depth
            /\ Start
\* entering a literal node
TEnterRaw == /\ IsEvent("enter") /\ Evs[l].kind = "raw"
             /\ TopIsEval /\ ~StartFails /\ ~IsOperation(Top.term) /\ Len(stack) = Evs[l].depth
             /\ Start
\* an implementation may wrap inert data in a literal node and "evaluate" it: no effect, allowed
TRawStutter == /\ IsEvent("enter") /\ Evs[l].kind = "raw" /\ ~(TopIsEval /\ ~IsOperation(Top.term))
               /\ UNCHANGED mvars
TLog == /\ IsEvent("log") /\ Running /\ Top.k = "args" /\ Top.op = K_log
        /\ Apply /\ SameValue(Top.vals[1], Evs[l].value)
TRet == /\ IsEvent("ret") /\ Finish
        /\ Evs[l].ok = ret.ok /\ (ret.ok => SameValue(ret.v, Evs[l].v))
Silent == /\ \/ (StartFails /\ Start)
             \/ EvalOperand \/ OperandDone
             \/ (Running /\ Top.k = "args" /\ Top.op # K_log /\ Apply)
             \/ IfStep \/ AndOrStep \/ EachStep \/ ReduceStep \/ QuantStep
          /\ UNCHANGED l

TInit == /\ l = 1 /\ phase = "idle" /\ rule = Null /\ data = Null /\ stack = <<>> /\ ret = None
         /\ out = <<>> /\ evals = {} /\ dup = FALSE
         /\ TLCSet(1, 0)
TNext == TCall \/ TEnterOp \/ TEnterRaw \/ TRawStutter \/ TLog \/ TRet \/ Silent
TSpec == TInit /\ [][TNext]_tvars

\* bookkeeping: the highest event index reached (evaluated as a state constraint, always TRUE)
MaxL == TLCSet(1, IF l > TLCGet(1) THEN l ELSE TLCGet(1))
Accepted == \/ TLCGet(1) = NEv + 1
            \/ /\ PrintT(<<"REJECTED", TLCGet(1), Evs[TLCGet(1)].ev>>)
               /\ FALSE
=============================================================================
