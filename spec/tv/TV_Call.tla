------------------------------ MODULE TV_Call ------------------------------
(***************************************************************************)
(* Trace validation (implementation -> specification) of recorded calls:   *)
(* every record <<rule, data, outcome>> produced by running the real       *)
(* interpreter must be what the specification's Eval gives.  Records are   *)
(* initial states; the verdict is computed in one step so that all workers *)
(* share the evaluation.  A disagreement is printed (MISMATCH i) and makes *)
(* the invariant fail only at the end (POSTCONDITION), so every record is  *)
(* examined.                                                               *)
(***************************************************************************)
EXTENDS JsonLogic, Json, IOUtils, TLCExt, FiniteSets

Recs == ndJsonDeserialize(IOEnv.VERIF_TRACE)
N == Len(Recs)

VARIABLES i, verdict
vars == <<i, verdict>>

\* values agree; a zero may be spelled 0, 0.0 or -0.0 (left open); a number's text is not compared
RECURSIVE SameOut(_, _)
SameOut(a, b) ==
  /\ a.t = b.t
  /\ CASE a.t = "z" -> TRUE
       [] a.t \in {"b", "s"} -> a.v = b.v
       [] a.t = "n" -> (a.m = <<>> /\ b.m = <<>>) \/ (a.k = b.k /\ a.s = b.s /\ a.m = b.m /\ a.e = b.e)
       [] a.t = "a" -> Len(a.v) = Len(b.v) /\ \A j \in DOMAIN a.v : SameOut(a.v[j], b.v[j])
       [] a.t = "o" -> Len(a.v) = Len(b.v) /\ \A j \in DOMAIN a.v : a.v[j][1] = b.v[j][1] /\ SameOut(a.v[j][2], b.v[j][2])
SameLogBag(s1, s2) ==
  /\ Len(s1) = Len(s2)
  /\ \A j \in DOMAIN s1 : Cardinality({q \in DOMAIN s1 : SameOut(s1[q], s1[j])}) = Cardinality({q \in DOMAIN s2 : SameOut(s2[q], s1[j])})

RECURSIVE ValUnknown(_)
ValUnknown(v) == CASE v.t = "s" -> TextUnknown(v.v)
                   [] v.t = "a" -> \E j \in DOMAIN v.v : ValUnknown(v.v[j])
                   [] v.t = "o" -> \E j \in DOMAIN v.v : TextUnknown(v.v[j][1]) \/ ValUnknown(v.v[j][2])
                   [] OTHER -> FALSE

\* an iteration operator whose element expression is ill-formed: whether that is an error when the collection turns
\* out to be empty (the expression is never reached) is left open by the statements (DESIGN 5.1) - syntactic over-approximation
RECURSIVE HasOpenBody(_)
HasOpenBody(r) ==
  CASE r.t = "a" -> \E j \in DOMAIN r.v : HasOpenBody(r.v[j])
    [] IsOperation(r) ->
         LET k == KeyOf(r)
             as == Operands(r)
         IN \/ k \in {K_map, K_filter, K_reduce, K_all, K_some, K_none} /\ Len(as) >= 2 /\ ~ParseOK(as[2])
            \/ \E j \in DOMAIN as : HasOpenBody(as[j])
    [] OTHER -> FALSE

Verdict(r) ==
  IF "crash" \in DOMAIN r.out THEN "crash"
  ELSE LET e == Eval(r.rule, r.data)
       IN IF ValUnknown(e.v) \/ \E j \in DOMAIN e.log : ValUnknown(e.log[j]) THEN "skipped"
          ELSE IF r.out.ok # e.ok THEN (IF HasOpenBody(r.rule) THEN "open-body" ELSE "bad-okness")
          ELSE IF e.ok /\ ~SameOut(r.out.v, e.v) THEN "bad-value"
          ELSE IF e.ok /\ ~SameLogBag(r.out.log, e.log) THEN "bad-log"
          \* which variant of the error enumeration: pinned by no property, reported as drift
          ELSE IF ~e.ok /\ e.v.t = "s" /\ r.out.v.t = "s" /\ r.out.v.v # e.v.v THEN "variant-drift"
          ELSE "ok"

Init == i \in 1..N /\ verdict = "new"
Next == verdict = "new" /\ verdict' = Verdict(Recs[i]) /\ UNCHANGED i
Spec == Init /\ [][Next]_vars

Report == verdict \in {"new", "ok"} \/ PrintT(<<"VERDICT", i, verdict>>)
\* every record was examined
AllSeen == TLCGet("distinct") = 2 * N
=============================================================================
