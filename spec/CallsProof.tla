----------------------------- MODULE CallsProof -----------------------------
(***************************************************************************)
(* Unbounded-parameter companion of Calls.tla: for ANY set of threads, ANY *)
(* programs and ANY pure outcome function, the protocol "a call begins,    *)
(* a call ends with the isolated outcome of its inputs" keeps every        *)
(* recorded result equal to the isolated outcome (HistoryIndependent) and  *)
(* never changes the shared inputs.  Calls.tla instantiates this shape     *)
(* with Eval of JsonLogic.tla as the outcome function and adds the log     *)
(* lines; TLC checks that instance for small parameters, TLAPS proves the  *)
(* shape for all parameters.                                               *)
(***************************************************************************)
EXTENDS Integers, Sequences, TLAPS

CONSTANTS Threads,     \* any set of thread identifiers
          Inputs,      \* any set of call inputs (rule, data)
          Outcomes,    \* any set of outcomes
          ResOf        \* the isolated outcome of an input: a pure function

ASSUME ResType == ResOf \in [Inputs -> Outcomes]

VARIABLES Prog,        \* Prog[t]: the calls of thread t (chosen initially, then fixed)
          pool,        \* the shared inputs as the threads see them
          pc, st, results
vars == <<Prog, pool, pc, st, results>>

Init == /\ Prog \in [Threads -> Seq(Inputs)]
        /\ pool = Prog
        /\ pc = [t \in Threads |-> 1]
        /\ st = [t \in Threads |-> "idle"]
        /\ results = [t \in Threads |-> << >>]

Begin(t) == /\ st[t] = "idle" /\ pc[t] <= Len(Prog[t])
            /\ st' = [st EXCEPT ![t] = "running"]
            /\ UNCHANGED <<Prog, pool, pc, results>>

End(t) == /\ st[t] = "running"
          /\ results' = [results EXCEPT ![t] = Append(@, ResOf[pool[t][pc[t]]])]
          /\ st' = [st EXCEPT ![t] = "idle"]
          /\ pc' = [pc EXCEPT ![t] = @ + 1]
          /\ UNCHANGED <<Prog, pool>>

Next == \E t \in Threads : Begin(t) \/ End(t)
Spec == Init /\ [][Next]_vars

HistoryIndependent ==
  \A t \in Threads : \A j \in 1..Len(results[t]) : results[t][j] = ResOf[Prog[t][j]]
InputsUntouched == pool = Prog

TypeOK == /\ Prog \in [Threads -> Seq(Inputs)]
          /\ pc \in [Threads -> Nat \ {0}]
          /\ st \in [Threads -> {"idle", "running"}]
          /\ results \in [Threads -> Seq(Outcomes)]

Inv == /\ TypeOK
       /\ InputsUntouched
       /\ \A t \in Threads : Len(results[t]) = pc[t] - 1
       /\ \A t \in Threads : st[t] = "running" => pc[t] <= Len(Prog[t])
       /\ HistoryIndependent

LEMMA InitInv == Init => Inv
  BY ResType DEF Init, Inv, TypeOK, InputsUntouched, HistoryIndependent

LEMMA NextInv == Inv /\ [Next]_vars => Inv'
<1> SUFFICES ASSUME Inv, [Next]_vars PROVE Inv'
  OBVIOUS
<1>1. CASE UNCHANGED vars
  BY <1>1 DEF Inv, TypeOK, InputsUntouched, HistoryIndependent, vars
<1>2. ASSUME NEW t \in Threads, Begin(t) PROVE Inv'
  BY <1>2 DEF Begin, Inv, TypeOK, InputsUntouched, HistoryIndependent
<1>3. ASSUME NEW t \in Threads, End(t) PROVE Inv'
  <2> DEFINE new == ResOf[pool[t][pc[t]]]
  <2>0. Prog' = Prog
    BY <1>3 DEF End
  <2>1. pool[t] = Prog[t] /\ pc[t] \in 1..Len(Prog[t]) /\ Prog[t] \in Seq(Inputs)
    BY <1>3 DEF End, Inv, TypeOK, InputsUntouched
  <2>2. new \in Outcomes
    BY <2>1, ResType
  <2>3. results[t] \in Seq(Outcomes) /\ Len(results[t]) = pc[t] - 1
    BY DEF Inv, TypeOK
  <2>4. results'[t] = Append(results[t], new) /\ \A u \in Threads : u # t => results'[u] = results[u]
    BY <1>3 DEF End, Inv, TypeOK
  <2>5. TypeOK'
    BY <1>3, <2>0, <2>2, <2>3, <2>4 DEF End, Inv, TypeOK
  <2>6. InputsUntouched'
    BY <1>3, <2>0 DEF End, Inv, InputsUntouched
  <2>7. \A u \in Threads : Len(results'[u]) = pc'[u] - 1
    BY <1>3, <2>3, <2>4 DEF End, Inv, TypeOK
  <2>8. \A u \in Threads : st'[u] = "running" => pc'[u] <= Len(Prog'[u])
    BY <1>3, <2>0 DEF End, Inv, TypeOK
  <2>9. HistoryIndependent'
    <3> SUFFICES ASSUME NEW u \in Threads, NEW j \in 1..Len(results'[u]) PROVE results'[u][j] = ResOf[Prog[u][j]]
      BY <2>0 DEF HistoryIndependent
    <3>1. CASE u # t
      BY <3>1, <2>4 DEF Inv, HistoryIndependent
    <3>2. CASE u = t
      <4>1. Len(results'[t]) = Len(results[t]) + 1
        BY <2>3, <2>4
      <4>2. CASE j <= Len(results[t])
        BY <4>2, <3>2, <2>3, <2>4 DEF Inv, HistoryIndependent
      <4>3. CASE j = Len(results[t]) + 1
        BY <4>3, <3>2, <2>1, <2>3, <2>4
      <4>4. j \in 1..(Len(results[t]) + 1) /\ Len(results[t]) \in Nat
        BY <4>1, <3>2, <2>3
      <4> QED BY <4>2, <4>3, <4>4
    <3> QED BY <3>1, <3>2
  <2> QED BY <2>5, <2>6, <2>7, <2>8, <2>9 DEF Inv
<1> QED BY <1>1, <1>2, <1>3 DEF Next

THEOREM Safety == Spec => [](HistoryIndependent /\ InputsUntouched)
<1>1. Inv => HistoryIndependent /\ InputsUntouched
  BY DEF Inv
<1> QED BY InitInv, NextInv, <1>1, PTL DEF Spec
=============================================================================
