------------------------------ MODULE JsString ------------------------------
(***************************************************************************)
(* Strings are sequences of Unicode code points.  ECMA-262 StringToNumber  *)
(* (7.1.4.1.1) and parseFloat (19.2.4), Rust's str::parse::<i64>, and the  *)
(* path splitter of `var` (mirrors op/data.rs split_with_escape).          *)
(***************************************************************************)
EXTENDS JsonValue

\* ECMA-262 WhiteSpace + LineTerminator (StrWhiteSpaceChar)
WS == {9, 10, 11, 12, 13, 32, 160, 5760, 8232, 8233, 8239, 8287, 12288, 65279} \cup (8192..8202)
\* code points on which Rust's char::is_whitespace and ES StrWhiteSpaceChar disagree
WSDisputed == {133, 65279, 6158}
IsDigit(c) == c >= 48 /\ c <= 57

RECURSIVE LStrip(_)
LStrip(s) == IF s # <<>> /\ s[1] \in WS THEN LStrip(Tail(s)) ELSE s
RECURSIVE RStrip(_)
RStrip(s) == IF s # <<>> /\ s[Len(s)] \in WS THEN RStrip(SubSeq(s, 1, Len(s) - 1)) ELSE s
TrimWS(s) == RStrip(LStrip(s))

StartsWith(s, p) == Len(s) >= Len(p) /\ SubSeq(s, 1, Len(p)) = p

\* number of consecutive digits of s starting at position i
RECURSIVE DigitRun(_, _)
DigitRun(s, i) == IF i <= Len(s) /\ IsDigit(s[i]) THEN 1 + DigitRun(s, i + 1) ELSE 0
\* digits s[i..i+n-1] appended to the BigNat acc
RECURSIVE DigitsVal(_, _, _, _)
DigitsVal(s, i, n, acc) ==
  IF n = 0 THEN acc
  ELSE DigitsVal(s, i + 1, n - 1, BAdd(BMulSmall(acc, 10), IF s[i] = 48 THEN <<>> ELSE <<s[i] - 48>>))
\* digits as a small integer, saturating above 100000
RECURSIVE SmallVal(_, _, _, _)
SmallVal(s, i, n, acc) ==
  IF n = 0 THEN acc
  ELSE SmallVal(s, i + 1, n - 1, IF acc > 100000 THEN acc ELSE acc * 10 + (s[i] - 48))

\* Longest StrUnsignedDecimalLiteral prefix of s starting at i (without "Infinity").
\* [len |-> chars consumed (0 = none), D |-> BigNat of all mantissa digits, k |-> decimal exponent]
ScanDecimal(s, i) ==
  LET n1 == DigitRun(s, i)
      hasDot == i + n1 <= Len(s) /\ s[i + n1] = 46
      n2 == IF hasDot THEN DigitRun(s, i + n1 + 1) ELSE 0
      mantOK == n1 > 0 \/ (hasDot /\ n2 > 0)
      mlen == IF ~hasDot THEN n1 ELSE IF n1 = 0 /\ n2 = 0 THEN 0 ELSE n1 + 1 + n2   \* "5." allowed, "." not
      j == i + mlen
      hasE == mantOK /\ j <= Len(s) /\ s[j] \in {101, 69}
      sgnE == hasE /\ j + 1 <= Len(s) /\ s[j + 1] \in {43, 45}
      ei == IF sgnE THEN j + 2 ELSE j + 1
      n3 == IF hasE THEN DigitRun(s, ei) ELSE 0
      expOK == hasE /\ n3 > 0
      ev == IF expOK THEN SmallVal(s, ei, n3, 0) ELSE 0
      ex == IF expOK /\ sgnE /\ s[j + 1] = 45 THEN -ev ELSE ev
      D == DigitsVal(s, i + n1 + 1, n2, DigitsVal(s, i, n1, <<>>))
  IN IF ~mantOK THEN [len |-> 0, D |-> <<>>, k |-> 0]
     ELSE [len |-> mlen + (IF expOK THEN (ei - j) + n3 ELSE 0), D |-> D, k |-> ex - n2]

\* D * 10^k as a double.  Exponents are clipped by the decimal magnitude: with nd digits in D the value
\* lies in [10^(nd+k-1), 10^(nd+k)), so nd+k > 310 overflows and nd+k < -330 rounds to zero.
\* (Mantissas here have at most 100 digits, so |k| stays below Pow10Max otherwise.)
DecToF(sg, D, k) ==
  IF D = <<>> THEN Fin(sg, <<>>, 0)
  ELSE IF k >= -300 /\ k <= 300 THEN FromDecimal(sg, D, k)
  ELSE LET nd == Len(DecDigits(D))
       IN IF nd + k > 310 THEN Inf(sg)
          ELSE IF nd + k < -330 THEN Fin(sg, <<>>, 0)
          ELSE FromDecimal(sg, D, k)

HexVal(c) == IF IsDigit(c) THEN c - 48
             ELSE IF c >= 97 /\ c <= 102 THEN c - 87
             ELSE IF c >= 65 /\ c <= 70 THEN c - 55 ELSE -1
BadRadix == <<-1>>
RECURSIVE RadixVal(_, _, _, _)
RadixVal(s, i, radix, acc) ==
  IF acc = BadRadix THEN acc
  ELSE IF i > Len(s) THEN acc
  ELSE LET d == HexVal(s[i])
       IN IF d < 0 \/ d >= radix THEN BadRadix
          ELSE RadixVal(s, i + 1, radix, BAdd(BMulSmall(acc, radix), IF d = 0 THEN <<>> ELSE <<d>>))

\* ECMA-262 StringToNumber: a double, possibly NaN / +-Inf
StringToNumber(str) ==
  LET s == TrimWS(str)
  IN IF s = <<>> THEN FZero
     ELSE IF Len(s) > 2 /\ s[1] = 48 /\ s[2] \in {120, 88, 111, 79, 98, 66}
     THEN LET radix == IF s[2] \in {120, 88} THEN 16 ELSE IF s[2] \in {111, 79} THEN 8 ELSE 2
              v == RadixVal(s, 3, radix, <<>>)
          IN IF v = BadRadix THEN NaN ELSE Round(0, v, 0, FALSE)
     ELSE LET hasSign == s[1] \in {43, 45}
              sg == IF s[1] = 45 THEN 1 ELSE 0
              i == IF hasSign THEN 2 ELSE 1
              rest == SubSeq(s, i, Len(s))
          IN IF rest = S_Infinity THEN Inf(sg)
             ELSE LET r == ScanDecimal(s, i)
                  IN IF r.len = 0 \/ i + r.len - 1 # Len(s) THEN NaN ELSE DecToF(sg, r.D, r.k)

\* ECMAScript parseFloat applied to a string
ParseFloat(str) ==
  LET s == LStrip(str)
  IN IF s = <<>> THEN NaN
     ELSE LET hasSign == s[1] \in {43, 45}
              sg == IF s[1] = 45 THEN 1 ELSE 0
              i == IF hasSign THEN 2 ELSE 1
          IN IF StartsWith(SubSeq(s, i, Len(s)), S_Infinity) THEN Inf(sg)
             ELSE LET r == ScanDecimal(s, i) IN IF r.len = 0 THEN NaN ELSE DecToF(sg, r.D, r.k)

\* does the string have a disputed white-space code point at an edge (where trimming could matter)?
\* Rust's trim and ES StrWhiteSpace differ on these by definition; such strings are outside the pinned domain.
HasDisputedWS(s) == \E j \in DOMAIN s : s[j] \in WSDisputed

(***************************************************************************)
(* Integer indices.  An index is [neg |-> BOOLEAN, mag |-> BigNat].        *)
(***************************************************************************)
NoIndex == [none |-> TRUE]
Two63m1 == BSub(Two63, One)
\* Rust str::parse::<i64>: optional sign, one or more ASCII digits, in range; else NoIndex
ParseI64(seg) ==
  IF seg = <<>> THEN NoIndex
  ELSE LET hasSign == seg[1] \in {43, 45}
           i == IF hasSign THEN 2 ELSE 1
           n == DigitRun(seg, i)
       IN IF n = 0 \/ i + n - 1 # Len(seg) THEN NoIndex
          ELSE LET mag == DigitsVal(seg, i, n, <<>>)
                   neg == seg[1] = 45
               IN IF (neg /\ BCmp(mag, Two63) > 0) \/ (~neg /\ BCmp(mag, Two63m1) > 0) THEN NoIndex
                  ELSE [neg |-> neg /\ mag # <<>>, mag |-> mag]

\* 1-based position selected by an index in a sequence of length len, 0 if out of range.
\* Total on every integer (no machine-integer partiality): -len selects the first element, -len-1 nothing.
IndexPos(len, idx) ==
  IF ~FitsSmall(idx.mag) THEN 0
  ELSE LET a == ToSmall(idx.mag)
       IN IF ~idx.neg THEN (IF a < len THEN a + 1 ELSE 0)
          ELSE (IF a <= len THEN len - a + 1 ELSE 0)

(***************************************************************************)
(* split_with_escape(input, '.'): a backslash makes the next character     *)
(* literal; segments are pushed at every unescaped delimiter; a trailing   *)
(* EMPTY segment is dropped.  Written as the code's loop: state            *)
(* (i, slice, result, escape).                                             *)
(***************************************************************************)
RECURSIVE SplitLoop(_, _, _, _, _, _)
SplitLoop(s, delim, i, slice, result, escape) ==
  IF i > Len(s) THEN (IF slice # <<>> THEN Append(result, slice) ELSE result)
  ELSE LET c == s[i]
       IN IF escape THEN SplitLoop(s, delim, i + 1, Append(slice, c), result, FALSE)
          ELSE IF c = 92 THEN SplitLoop(s, delim, i + 1, slice, result, TRUE)
          ELSE IF c = delim THEN SplitLoop(s, delim, i + 1, <<>>, Append(result, slice), FALSE)
          ELSE SplitLoop(s, delim, i + 1, Append(slice, c), result, FALSE)
SplitWithEscape(s, delim) == SplitLoop(s, delim, 1, <<>>, <<>>, FALSE)

\* is p a contiguous sub-sequence of s?
IsSubSeq(p, s) == \E i \in 0..(Len(s) - Len(p)) : SubSeq(s, i + 1, i + Len(p)) = p
=============================================================================
