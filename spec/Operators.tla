------------------------------ MODULE Operators ------------------------------
(***************************************************************************)
(* Data, array and string operators on already evaluated operands          *)
(* (mirrors src/op/data.rs, op/array.rs merge/in_, op/string.rs) and the   *)
(* operator table: class and documented arity of the 35 operator names     *)
(* (mirrors src/op/mod.rs).                                                *)
(***************************************************************************)
EXTENDS JsOps

Found(v) == [found |-> TRUE, v |-> v]
NotFound == [found |-> FALSE, v |-> Null]

\* ---- keys of var / missing: null, string, or integer; anything else is an invalid key
KeyKind(k) == CASE k.t = "z" -> "null"
                [] k.t = "s" -> "str"
                [] k.t = "n" /\ k.k = "i" -> "int"
                [] OTHER -> "bad"
IdxOfNum(n) == [neg |-> n.s = 1 /\ n.m # <<>>, mag |-> n.m]

CharAt(s, pos) == Str(<<s.v[pos]>>)

\* one path step into a container
PathStep(cur, seg) ==
  CASE cur.t = "o" -> IF HasKey(cur, seg) THEN Found(GetKey(cur, seg)) ELSE NotFound
    [] cur.t = "a" -> LET ix == ParseI64(seg)
                      IN IF ix = NoIndex THEN NotFound
                         ELSE LET p == IndexPos(Len(cur.v), ix)
                              IN IF p = 0 THEN NotFound ELSE Found(cur.v[p])
    [] cur.t = "s" -> LET ix == ParseI64(seg)
                      IN IF ix = NoIndex THEN NotFound
                         ELSE LET p == IndexPos(Len(cur.v), ix)
                              IN IF p = 0 THEN NotFound ELSE Found(CharAt(cur, p))
    [] OTHER -> NotFound
RECURSIVE Walk(_, _, _)
Walk(cur, segs, i) == IF i > Len(segs) THEN Found(cur)
                      ELSE LET r == PathStep(cur, segs[i])
                           IN IF r.found THEN Walk(r.v, segs, i + 1) ELSE NotFound
GetStrKey(d, k) ==
  IF k = <<>> THEN Found(d)
  ELSE IF d.t \in {"o", "a", "s"} THEN Walk(d, SplitWithEscape(k, 46), 1)
  ELSE NotFound
\* lookup of a valid key
Lookup(d, key) ==
  CASE KeyKind(key) = "null" -> Found(d)
    [] KeyKind(key) = "str" -> GetStrKey(d, key.v)
    [] KeyKind(key) = "int" ->
         CASE d.t = "o" -> GetStrKey(d, NumText(key))      \* the key's decimal text
           [] d.t = "a" -> LET p == IndexPos(Len(d.v), IdxOfNum(key))
                           IN IF p = 0 THEN NotFound ELSE Found(d.v[p])
           [] d.t = "s" -> LET p == IndexPos(Len(d.v), IdxOfNum(key))
                           IN IF p = 0 THEN NotFound ELSE Found(CharAt(d, p))
           [] OTHER -> NotFound

\* var: operands are evaluated and inert; a present value (even null) beats the default
Var(d, vs) ==
  IF Len(vs) = 0 THEN Ok(d)
  ELSE IF KeyKind(vs[1]) = "bad" THEN ErrK(EK_InvalidVariableKey)
  ELSE LET r == Lookup(d, vs[1])
       IN IF r.found THEN Ok(r.v) ELSE IF Len(vs) < 2 THEN Ok(Null) ELSE Ok(vs[2])

\* missing: first-operand-array rule; null keys ignored; in request order
RECURSIVE MissingLoop(_, _, _, _)
MissingLoop(d, ks, i, acc) ==
  IF i > Len(ks) THEN Ok(Arr(acc))
  ELSE LET kk == KeyKind(ks[i])
       IN IF kk = "bad" THEN ErrK(EK_InvalidVariableKey)
          ELSE IF kk = "null" THEN MissingLoop(d, ks, i + 1, acc)
          ELSE MissingLoop(d, ks, i + 1, IF Lookup(d, ks[i]).found THEN acc ELSE Append(acc, ks[i]))
Missing(d, vs) ==
  LET ks == IF Len(vs) > 0 /\ vs[1].t = "a" THEN vs[1].v ELSE vs
  IN MissingLoop(d, ks, 1, <<>>)

\* missing_some: the code's walk, state (i, present, missing); stops once the threshold is met;
\* an absent key is never counted as present, however often it is listed
InSeqV(x, xs) == \E j \in DOMAIN xs : SameValue(x, xs[j])
MetThreshold(present, thr) == BCmp(FromSmall(present), thr) >= 0
RECURSIVE MissingSomeLoop(_, _, _, _, _, _)
MissingSomeLoop(d, thr, ks, i, present, miss) ==
  IF i > Len(ks) \/ MetThreshold(present, thr)
  THEN Ok(Arr(IF MetThreshold(present, thr) THEN <<>> ELSE miss))
  ELSE LET kk == KeyKind(ks[i])
       IN IF kk = "bad" THEN ErrK(EK_InvalidVariableKey)
          ELSE IF kk = "null" THEN MissingSomeLoop(d, thr, ks, i + 1, present, miss)
          ELSE IF Lookup(d, ks[i]).found THEN MissingSomeLoop(d, thr, ks, i + 1, present + 1, miss)
          ELSE MissingSomeLoop(d, thr, ks, i + 1, present,
                               IF InSeqV(ks[i], miss) THEN miss ELSE Append(miss, ks[i]))
MissingSome(d, vs) ==
  LET t == vs[1]
      ks == vs[2]
  IN IF ~(t.t = "n" /\ t.k = "i" /\ t.s = 0) THEN ErrK(EK_InvalidArgument)
     ELSE IF ks.t # "a" THEN ErrK(EK_InvalidArgument)
     ELSE MissingSomeLoop(d, t.m, ks.v, 1, 0, <<>>)

\* ---- merge: one level
RECURSIVE MergeLoop(_, _, _)
MergeLoop(vs, i, acc) ==
  IF i > Len(vs) THEN acc
  ELSE MergeLoop(vs, i + 1, IF vs[i].t = "a" THEN acc \o vs[i].v ELSE Append(acc, vs[i]))
Merge(vs) == Ok(Arr(MergeLoop(vs, 1, <<>>)))

\* ---- in: substring (both strings) / deep numeric membership / null => false / else error
In(vs) ==
  LET needle == vs[1]
      hay == vs[2]
  IN CASE hay.t = "z" -> Ok(False)
       [] hay.t = "a" -> Ok(Bool(\E j \in DOMAIN hay.v : DeepNumEq(needle, hay.v[j])))
       [] hay.t = "s" -> IF needle.t = "s" THEN Ok(Bool(IsSubSeq(needle.v, hay.v))) ELSE ErrK(EK_InvalidArgument)
       [] OTHER -> ErrK(EK_InvalidArgument)

\* ---- cat: concatenation of JS string forms
RECURSIVE CatLoop(_, _)
CatLoop(vs, i) == IF i > Len(vs) THEN <<>> ELSE ToStringJS(vs[i]) \o CatLoop(vs, i + 1)
Cat(vs) == Ok(Str(CatLoop(vs, 1)))

\* ---- substr: all arithmetic in characters, on unbounded integers, then clamped to the string
IsI64(n) == /\ n.t = "n" /\ n.k = "i"
            /\ IF n.s = 1 THEN BCmp(n.m, Two63) <= 0 ELSE BCmp(n.m, Two63m1) <= 0
\* the integer clamped into -(len+1) .. len+1
ClampSmall(n, len) ==
  LET a == IF FitsSmall(n.m) /\ ToSmall(n.m) <= len THEN ToSmall(n.m) ELSE len + 1
  IN IF n.s = 1 THEN -a ELSE a
Min2(a, b) == IF a < b THEN a ELSE b
Substr(vs) ==
  IF vs[1].t # "s" THEN ErrK(EK_InvalidArgument)
  ELSE IF ~IsI64(vs[2]) THEN ErrK(EK_InvalidArgument)
  ELSE IF Len(vs) = 3 /\ ~IsI64(vs[3]) THEN ErrK(EK_InvalidArgument)
  ELSE LET cs == vs[1].v
           len == Len(cs)
           idx == ClampSmall(vs[2], len)
           start == IF idx < 0 THEN Max2(len + idx, 0) ELSE Min2(idx, len)
           end == IF Len(vs) = 2 THEN len
                  ELSE LET l == ClampSmall(vs[3], len)
                       IN IF l < 0 THEN Max2(len + l, 0) ELSE Min2(len, start + l)
       IN Ok(Str(SubSeq(cs, start + 1, end)))

(***************************************************************************)
(* Operator table                                                          *)
(***************************************************************************)
EagerOps == {K_eq, K_ne, K_seq, K_sne, K_not, K_notnot, K_lt, K_lte, K_gt, K_gte,
             K_add, K_sub, K_mul, K_div, K_mod, K_max, K_min, K_merge, K_in, K_cat, K_substr, K_log}
DataOps == {K_var, K_missing, K_missing_some}
LazyOps == {K_if, K_tern, K_or, K_and, K_map, K_filter, K_reduce, K_all, K_some, K_none}
AllOps == EagerOps \cup DataOps \cup LazyOps

\* the documented operand counts (statement of C03)
ArityOK(k, n) ==
  CASE k \in {K_eq, K_ne, K_seq, K_sne, K_div, K_mod, K_in, K_map, K_filter,
              K_all, K_some, K_none, K_missing_some} -> n = 2
    [] k \in {K_lt, K_lte, K_gt, K_gte, K_substr} -> n \in {2, 3}
    [] k = K_reduce -> n = 3
    [] k \in {K_not, K_notnot, K_log} -> n = 1
    [] k = K_sub -> n \in {1, 2}
    [] k = K_var -> n \in {0, 1, 2}
    [] k \in {K_mul, K_max, K_min, K_and, K_or} -> n >= 1
    [] k \in {K_add, K_cat, K_merge, K_missing, K_if, K_tern} -> TRUE

\* a value is an operation iff it is an object with exactly one key and that key is an operator name
IsOperation(r) == r.t = "o" /\ Len(r.v) = 1 /\ r.v[1][1] \in AllOps
KeyOf(r) == r.v[1][1]
\* {"op": x} means {"op": [x]} for every non-array x
Operands(r) == LET x == r.v[1][2] IN IF x.t = "a" THEN x.v ELSE <<x>>
HeadOK(r) == ArityOK(KeyOf(r), Len(Operands(r)))
\* which error a bad head is (src/op/mod.rs op_from_map): a non-array operand is only accepted by operators
\* that can take one operand; then the count is checked.  NoErr = the head is fine
NoErr == <<>>
HeadErr(r) == IF r.v[1][2].t # "a" /\ ~ArityOK(KeyOf(r), 1) THEN EK_InvalidOperation
              ELSE IF ~HeadOK(r) THEN EK_WrongArgumentCount
              ELSE NoErr

\* semantic function of an eager operator on evaluated operands (positions read are within the arity)
ApplyEager(k, vs) ==
  CASE k = K_eq -> Ok(Bool(AbstractEq(vs[1], vs[2])))
    [] k = K_ne -> Ok(Bool(AbstractNe(vs[1], vs[2])))
    [] k = K_seq -> Ok(Bool(StrictEq(vs[1], vs[2])))
    [] k = K_sne -> Ok(Bool(StrictNe(vs[1], vs[2])))
    [] k = K_not -> Ok(Bool(~Truthy(vs[1])))
    [] k = K_notnot -> Ok(Bool(Truthy(vs[1])))
    [] k \in {K_lt, K_lte, K_gt, K_gte} -> Ok(Bool(Compare(k, vs)))
    [] k = K_add -> Add(vs)
    [] k = K_sub -> Minus(vs)
    [] k = K_mul -> Mul(vs)
    [] k = K_div -> Div(vs)
    [] k = K_mod -> Mod(vs)
    [] k = K_max -> MaxOp(vs)
    [] k = K_min -> MinOp(vs)
    [] k = K_merge -> Merge(vs)
    [] k = K_in -> In(vs)
    [] k = K_cat -> Cat(vs)
    [] k = K_substr -> Substr(vs)
    [] k = K_log -> Ok(vs[1])
ApplyData(k, d, vs) ==
  CASE k = K_var -> Var(d, vs)
    [] k = K_missing -> Missing(d, vs)
    [] k = K_missing_some -> MissingSome(d, vs)
=============================================================================
