------------------------------- MODULE TLAPS --------------------------------

(* Backend pragmas. *)


(***************************************************************************)
(* Each of these pragmas can be cited with a BY or a USE.  The pragma that *)
(* is added to the context of an obligation most recently is the one whose *)
(* effects are triggered.                                                  *)
(***************************************************************************)

(***************************************************************************)
(* The following pragmas should be used only as a last resource.  They are *)
(* dependent upon the particular backend provers, and are unlikely to have *)
(* any effect if the set of backend provers changes.  Moreover, they are   *)
(* meaningless to a reader of the proof.                                   *)
(***************************************************************************)


(**************************************************************************)
(* Backend pragma: use the SMT solver for arithmetic.                     *)
(*                                                                        *)
(* This method exists under this name for historical reasons.             *)
(**************************************************************************)

SimpleArithmetic == TRUE (*{ by (prover:"smt3") }*)


(**************************************************************************)
(* Backend pragma: SMT solver                                             *)
(*                                                                        *)
(* This method translates the proof obligation to SMTLIB2. The supported  *)
(* fragment includes first-order logic, set theory, functions and         *)
(* records.                                                               *)
(* SMT calls the smt-solver with the default timeout of 5 seconds         *)
(* while SMTT(n) calls the smt-solver with a timeout of n seconds.        *)
(*                                                                        *)
(* SMTT also accepts a string argument of the form "rN" to bound the      *)
(* underlying Z3 solver by a deterministic `rlimit` budget instead of a    *)
(* wall-clock timeout, e.g. SMTT("r5"). N is a multiple of a fixed base    *)
(* resource count, so a small readable budget like "r5" is meaningful.     *)
(* Unlike a wall-clock timeout, an `rlimit` budget does not depend on CPU  *)
(* speed or load, so the proof's pass/fail outcome reproduces on any       *)
(* machine and every rerun (for a fixed Z3 build); how long it takes to    *)
(* consume the budget still varies by machine. This is Z3-specific.        *)
(**************************************************************************)

SMT == TRUE (*{ by (prover:"smt3") }*)
SMTT(X) == TRUE (*{ by (prover:"smt3"; timeout:@) }*)


(**************************************************************************)
(* Backend pragma: CVC4 SMT solver                                        *)
(*                                                                        *)
(* These methods translate the proof obligation to SMTLIB2 and call CVC4. *)
(**************************************************************************)

(* The CVC3* methods are here for backward compatibility. They call CVC4. *)
CVC3 == TRUE (*{ by (prover: "cvc33") }*)
CVC3T(X) == TRUE (*{ by (prover:"cvc33"; timeout:@) }*)

CVC4 == TRUE (*{ by (prover: "cvc33") }*)
CVC4T(X) == TRUE (*{ by (prover:"cvc33"; timeout:@) }*)


(**************************************************************************)
(* Backend pragma: Yices SMT solver                                       *)
(*                                                                        *)
(* This method translates the proof obligation to Yices native language.  *)
(**************************************************************************)

Yices == TRUE (*{ by (prover: "yices3") }*)
YicesT(X) == TRUE (*{ by (prover:"yices3"; timeout:@) }*)

(**************************************************************************)
(* Backend pragma: veriT SMT solver                                       *)
(*                                                                        *)
(* This method translates the proof obligation to SMTLIB2 and calls veriT.*)
(**************************************************************************)

veriT == TRUE (*{ by (prover: "verit") }*)
veriTT(X) == TRUE (*{ by (prover:"verit"; timeout:@) }*)

(**************************************************************************)
(* Backend pragma: Zipperposition solver                                  *)
(*                                                                        *)
(* This method translates the proof obligation to TPTP and                *)
(* calls Zipperposition.                                                  *)
(**************************************************************************)

Zipper == TRUE (*{ by (prover: "zipper") }*)
ZipperT(X) == TRUE (*{ by (prover:"zipper"; timeout:@) }*)

(**************************************************************************)
(* Backend pragma: Z3 SMT solver                                          *)
(*                                                                        *)
(* This method translates the proof obligation to SMTLIB2 and calls Z3.   *)
(* Z3 is used by default but you can also explicitly call it.             *)
(* Z3T(n) bounds Z3 by a wall-clock timeout of n seconds, while Z3T("rN")  *)
(* bounds it by a deterministic `rlimit` budget of N base units, which      *)
(* reproduces the same outcome on any machine (see SMTT).                   *)
(**************************************************************************)

Z3 == TRUE (*{ by (prover: "z33") }*)
Z3T(X) == TRUE (*{ by (prover:"z33"; timeout:@) }*)

(**************************************************************************)
(* Backend pragma: SPASS superposition prover                             *)
(*                                                                        *)
(* This method translates the proof obligation to the DFG format language *)
(* supported by the ATP SPASS. The translation is based on the SMT one.   *)
(**************************************************************************)

Spass == TRUE (*{ by (prover: "spass") }*)
SpassT(X) == TRUE (*{ by (prover:"spass"; timeout:@) }*)

(**************************************************************************)
(* Backend pragma: The PTL propositional linear time temporal logic       *)
(* prover.  It currently is the LS4 backend.                              *)
(*                                                                        *)
(* This method translates the negetation of the proof obligation to       *)
(* Seperated Normal Form (TRP++ format) and checks for unsatisfiability   *)
(**************************************************************************)

LS4 == TRUE (*{ by (prover: "ls4") }*)
LS4T(X) == TRUE (*{ by (prover: "ls4"; timeout:@) }*)
PTL == TRUE (*{ by (prover: "ls4") }*)

(**************************************************************************)
(* Backend pragma: Zenon with different timeouts (default is 10 seconds)  *)
(*                                                                        *)
(**************************************************************************)

Zenon == TRUE (*{ by (prover:"zenon") }*)
ZenonT(X) == TRUE (*{ by (prover:"zenon"; timeout:@) }*)

(********************************************************************)
(* Backend pragma: Isabelle with different timeouts and tactics     *)
(*  (default is 30 seconds/auto)                                    *)
(********************************************************************)

Isa == TRUE (*{ by (prover:"isabelle") }*)
IsaT(X) ==  TRUE (*{ by (prover:"isabelle"; timeout:@) }*)
IsaM(X) ==  TRUE (*{ by (prover:"isabelle"; tactic:@) }*)
IsaMT(X,Y) ==  TRUE (*{ by (prover:"isabelle"; tactic:@; timeout:@) }*)

(***************************************************************************)
(* The following theorem expresses the (useful implication of the) law of  *)
(* set extensionality, which can be written as                             *)
(*                                                                         *)
(*    THEOREM  \A S, T : (S = T) <=> (\A x : (x \in S) <=> (x \in T))      *)
(*                                                                         *)
(* Theorem SetExtensionality is sometimes required by the SMT backend for  *)
(* reasoning about sets. It is usually counterproductive to include        *)
(* theorem SetExtensionality in a BY clause for the Zenon or Isabelle      *)
(* backends. Instead, use the pragma IsaWithSetExtensionality to instruct  *)
(* the Isabelle backend to use the rule of set extensionality.             *)
(***************************************************************************)
IsaWithSetExtensionality == TRUE
           (*{ by (prover:"isabelle"; tactic:"(auto intro: setEqualI)")}*)

THEOREM SetExtensionality == \A S,T : (\A x : x \in S <=> x \in T) => S = T
OBVIOUS

(***************************************************************************)
(* The following theorem is needed to deduce NotInSetS \notin SetS from    *)
(* the definition                                                          *)
(*                                                                         *)
(*   NotInSetS == CHOOSE v : v \notin SetS                                 *)
(***************************************************************************)
THEOREM NoSetContainsEverything == \A S : \E x : x \notin S
OBVIOUS (*{by (isabelle "(auto intro: inIrrefl)")}*)
-----------------------------------------------------------------------------



(********************************************************************)
(********************************************************************)
(********************************************************************)


(********************************************************************)
(* Old versions of Zenon and Isabelle pragmas below                 *)
(* (kept for compatibility)                                         *)
(********************************************************************)


(**************************************************************************)
(* Backend pragma: Zenon with different timeouts (default is 10 seconds)  *)
(*                                                                        *)
(**************************************************************************)

SlowZenon == TRUE (*{ by (prover:"zenon"; timeout:20) }*)
SlowerZenon == TRUE (*{ by (prover:"zenon"; timeout:40) }*)
VerySlowZenon == TRUE (*{ by (prover:"zenon"; timeout:80) }*)
SlowestZenon == TRUE (*{ by (prover:"zenon"; timeout:160) }*)



(********************************************************************)
(* Backend pragma: Isabelle's automatic search ("auto")             *)
(*                                                                  *)
(* This pragma bypasses Zenon. It is useful in situations involving *)
(* essentially simplification and equational reasoning.             *)
(* Default imeout for all isabelle tactics is 30 seconds.           *)
(********************************************************************)
Auto == TRUE (*{ by (prover:"isabelle"; tactic:"auto") }*)
SlowAuto == TRUE (*{ by (prover:"isabelle"; tactic:"auto"; timeout:120) }*)
SlowerAuto == TRUE (*{ by (prover:"isabelle"; tactic:"auto"; timeout:480) }*)
SlowestAuto == TRUE (*{ by (prover:"isabelle"; tactic:"auto"; timeout:960) }*)

(********************************************************************)
(* Backend pragma: Isabelle's "force" tactic                        *)
(*                                                                  *)
(* This pragma bypasses Zenon. It is useful in situations involving *)
(* quantifier reasoning.                                            *)
(********************************************************************)
Force == TRUE (*{ by (prover:"isabelle"; tactic:"force") }*)
SlowForce == TRUE (*{ by (prover:"isabelle"; tactic:"force"; timeout:120) }*)
SlowerForce == TRUE (*{ by (prover:"isabelle"; tactic:"force"; timeout:480) }*)
SlowestForce == TRUE (*{ by (prover:"isabelle"; tactic:"force"; timeout:960) }*)

(***********************************************************************)
(* Backend pragma: Isabelle's "simplification" tactics                 *)
(*                                                                     *)
(* These tactics simplify the goal before running one of the automated *)
(* tactics. They are often necessary for obligations involving record  *)
(* or tuple projections. Use the SimplfyAndSolve tactic unless you're  *)
(* sure you can get away with just Simplification                      *)
(***********************************************************************)
SimplifyAndSolve        == TRUE
    (*{ by (prover:"isabelle"; tactic:"clarsimp auto?") }*)
SlowSimplifyAndSolve    == TRUE
    (*{ by (prover:"isabelle"; tactic:"clarsimp auto?"; timeout:120) }*)
SlowerSimplifyAndSolve  == TRUE
    (*{ by (prover:"isabelle"; tactic:"clarsimp auto?"; timeout:480) }*)
SlowestSimplifyAndSolve == TRUE
    (*{ by (prover:"isabelle"; tactic:"clarsimp auto?"; timeout:960) }*)

Simplification == TRUE (*{ by (prover:"isabelle"; tactic:"clarsimp") }*)
SlowSimplification == TRUE
    (*{ by (prover:"isabelle"; tactic:"clarsimp"; timeout:120) }*)
SlowerSimplification  == TRUE
    (*{ by (prover:"isabelle"; tactic:"clarsimp"; timeout:480) }*)
SlowestSimplification == TRUE
    (*{ by (prover:"isabelle"; tactic:"clarsimp"; timeout:960) }*)

(**************************************************************************)
(* Backend pragma: Isabelle's tableau prover ("blast")                    *)
(*                                                                        *)
(* This pragma bypasses Zenon and uses Isabelle's built-in theorem        *)
(* prover, Blast. It is almost never better than Zenon by itself, but     *)
(* becomes very useful in combination with the Auto pragma above. The     *)
(* AutoBlast pragma first attempts Auto and then uses Blast to prove what *)
(* Auto could not prove. (There is currently no way to use Zenon on the   *)
(* results left over from Auto.)                                          *)
(**************************************************************************)
Blast == TRUE (*{ by (prover:"isabelle"; tactic:"blast") }*)
SlowBlast == TRUE (*{ by (prover:"isabelle"; tactic:"blast"; timeout:120) }*)
SlowerBlast == TRUE (*{ by (prover:"isabelle"; tactic:"blast"; timeout:480) }*)
SlowestBlast == TRUE (*{ by (prover:"isabelle"; tactic:"blast"; timeout:960) }*)

AutoBlast == TRUE (*{ by (prover:"isabelle"; tactic:"auto, blast") }*)


(**************************************************************************)
(* Backend pragmas: multi-back-ends                                       *)
(*                                                                        *)
(* These pragmas just run a bunch of back-ends one after the other in the *)
(* hope that one will succeed. This saves time and effort for the user at *)
(* the expense of computation time.                                       *)
(**************************************************************************)

(* CVC3 goes first because it's bundled with TLAPS, then the other SMT
   solvers are unlikely to succeed if CVC3 fails, so we run zenon and
   Isabelle before them. *)
AllProvers == TRUE (*{
    by (prover:"cvc33")
    by (prover:"zenon")
    by (prover:"isabelle"; tactic:"auto")
    by (prover:"spass")
    by (prover:"smt3")
    by (prover:"yices3")
    by (prover:"verit")
    by (prover:"z33")
    by (prover:"isabelle"; tactic:"force")
    by (prover:"isabelle"; tactic:"(auto intro: setEqualI)")
    by (prover:"isabelle"; tactic:"clarsimp auto?")
    by (prover:"isabelle"; tactic:"clarsimp")
    by (prover:"isabelle"; tactic:"auto, blast")
  }*)
AllProversT(X) == TRUE (*{
    by (prover:"cvc33"; timeout:@)
    by (prover:"zenon"; timeout:@)
    by (prover:"isabelle"; tactic:"auto"; timeout:@)
    by (prover:"spass"; timeout:@)
    by (prover:"smt3"; timeout:@)
    by (prover:"yices3"; timeout:@)
    by (prover:"verit"; timeout:@)
    by (prover:"z33"; timeout:@)
    by (prover:"isabelle"; tactic:"force"; timeout:@)
    by (prover:"isabelle"; tactic:"(auto intro: setEqualI)"; timeout:@)
    by (prover:"isabelle"; tactic:"clarsimp auto?"; timeout:@)
    by (prover:"isabelle"; tactic:"clarsimp"; timeout:@)
    by (prover:"isabelle"; tactic:"auto, blast"; timeout:@)
  }*)

AllSMT == TRUE (*{
    by (prover:"cvc33")
    by (prover:"smt3")
    by (prover:"yices3")
    by (prover:"verit")
    by (prover:"z33")
  }*)
AllSMTT(X) == TRUE (*{
    by (prover:"cvc33"; timeout:@)
    by (prover:"smt3"; timeout:@)
    by (prover:"yices3"; timeout:@)
    by (prover:"verit"; timeout:@)
    by (prover:"z33"; timeout:@)
  }*)

AllIsa == TRUE (*{
    by (prover:"isabelle"; tactic:"auto")
    by (prover:"isabelle"; tactic:"force")
    by (prover:"isabelle"; tactic:"(auto intro: setEqualI)")
    by (prover:"isabelle"; tactic:"clarsimp auto?")
    by (prover:"isabelle"; tactic:"clarsimp")
    by (prover:"isabelle"; tactic:"auto, blast")
  }*)
AllIsaT(X) == TRUE (*{
    by (prover:"isabelle"; tactic:"auto"; timeout:@)
    by (prover:"isabelle"; tactic:"force"; timeout:@)
    by (prover:"isabelle"; tactic:"(auto intro: setEqualI)"; timeout:@)
    by (prover:"isabelle"; tactic:"clarsimp auto?"; timeout:@)
    by (prover:"isabelle"; tactic:"clarsimp"; timeout:@)
    by (prover:"isabelle"; tactic:"auto, blast"; timeout:@)
  }*)


(**************************************************************************)
(* The pragma ExpandEnabled invokes expansion of the operator ENABLED.    *)
(*                                                                        *)
(* The pragma ExpandCdot invokes expansion of the operator \cdot.         *)
(*                                                                        *)
(* The pragma AutoUSE invokes automated expansion of definitions,         *)
(* for both of ExpandEnabled and ExpandCdot, when each is present.        *)
(*                                                                        *)
(* The pragma Lambdify invokes expansion of the operators                 *)
(* ENABLED and \cdot to an intermediate form with bound VARIABLES,        *)
(* which is a form before introducing rigid quantifiers.                  *)
(* The pragma Lambdify is sound for occurrences of ENABLED and \cdot      *)
(* that are not nested.                                                   *)
(**************************************************************************)
ExpandENABLED == TRUE  (*{ by (prover:"expandenabled") }*)
ExpandCdot == TRUE  (*{ by (prover:"expandcdot") }*)
AutoUSE == TRUE  (*{ by (prover:"autouse") }*)
Lambdify == TRUE  (*{ by (prover:"lambdify") }*)
ENABLEDaxioms == TRUE  (*{ by (prover:"enabledaxioms") }*)
LevelComparison == TRUE  (*{ by (prover:"levelcomparison") }*)

(* The operators EnabledWrapper and CdotWrapper occur in an intermediate  *)
(* representation within TLAPM.                                           *)
EnabledWrapper(Op(_)) == FALSE
CdotWrapper(Op(_)) == FALSE

(***************************************************************************)
(* The following may be used in a `BY ONLY ThmName` for unit testing the   *)
(* triviality checks in TLAPM.                                             *)
(***************************************************************************)
Trivial == TRUE  (*{ by (prover:"trivial") }*)


=============================================================================

The material below is obsolete: the TLA proof rules below are superseded by
the PTL decision procedure, and their formulation is unsound for the semantics
of temporal reasoning that TLAPS adopts.

----------------------------------------------------------------------------
(***************************************************************************)
(*                           TEMPORAL LOGIC                                *)
(*                                                                         *)
(* The following rules are intended to be used when TLAPS handles temporal *)
(* logic.  They will not work now.  Moreover when temporal reasoning is    *)
(* implemented, these rules may be changed or omitted, and additional      *)
(* rules will probably be added.  However, they are included mainly so     *)
(* their names will be defined, preventing the use of identifiers that are *)
(* likely to produce name clashes with future versions of this module.     *)
(***************************************************************************)


(***************************************************************************)
(* The following proof rules (and their names) are from the paper "The     *)
(* Temporal Logic of Actions".                                             *)
(***************************************************************************)
THEOREM RuleTLA1 == ASSUME STATE P, STATE f,
                           P /\ (f' = f) => P'
                    PROVE  []P <=> P /\ [][P => P']_f

THEOREM RuleTLA2 == ASSUME STATE P, STATE Q, STATE f, STATE g,
                           ACTION A, ACTION B,
                           P /\ [A]_f => Q /\ [B]_g
                    PROVE  []P /\ [][A]_f => []Q /\ [][B]_g

THEOREM RuleINV1 == ASSUME STATE I, STATE F,  ACTION N,
                           I /\ [N]_F => I'
                    PROVE  I /\ [][N]_F => []I

THEOREM RuleINV2 == ASSUME STATE I, STATE f, ACTION N
                    PROVE  []I => ([][N]_f <=> [][N /\ I /\ I']_f)

THEOREM RuleWF1 == ASSUME STATE P, STATE Q, STATE f, ACTION N, ACTION A,
                          P /\ [N]_f => (P' \/ Q'),
                          P /\ <<N /\ A>>_f => Q',
                          P => ENABLED <<A>>_f
                   PROVE  [][N]_f /\ WF_f(A) => (P ~> Q)

THEOREM RuleSF1 == ASSUME STATE P, STATE Q, STATE f,
                          ACTION N, ACTION A, TEMPORAL F,
                          P /\ [N]_f => (P' \/ Q'),
                          P /\ <<N /\ A>>_f => Q',
                          []P /\ [][N]_f /\ []F => <> ENABLED <<A>>_f
                   PROVE  [][N]_f /\ SF_f(A) /\ []F => (P ~> Q)

(***************************************************************************)
(* The rules WF2 and SF2 in "The Temporal Logic of Actions" are obtained   *)
(* from the following two rules by the following substitutions: `.         *)
(*                                                                         *)
(*          ___        ___         _______________                         *)
(*      M <- M ,   g <- g ,  EM <- ENABLED <<M>>_g       .'                *)
(***************************************************************************)
THEOREM RuleWF2 == ASSUME STATE P, STATE f, STATE g, STATE EM,
                          ACTION A, ACTION B, ACTION N, ACTION M,
                          TEMPORAL F,
                          <<N /\ B>>_f => <<M>>_g,
                          P /\ P' /\ <<N /\ A>>_f /\ EM => B,
                          P /\ EM => ENABLED A,
                          [][N /\ ~B]_f /\ WF_f(A) /\ []F /\ <>[]EM => <>[]P
                   PROVE  [][N]_f /\ WF_f(A) /\ []F => []<><<M>>_g \/ []<>(~EM)

THEOREM RuleSF2 == ASSUME STATE P, STATE f, STATE g, STATE EM,
                          ACTION A, ACTION B, ACTION N, ACTION M,
                          TEMPORAL F,
                          <<N /\ B>>_f => <<M>>_g,
                          P /\ P' /\ <<N /\ A>>_f /\ EM => B,
                          P /\ EM => ENABLED A,
                          [][N /\ ~B]_f /\ SF_f(A) /\ []F /\ []<>EM => <>[]P
                   PROVE  [][N]_f /\ SF_f(A) /\ []F => []<><<M>>_g \/ <>[](~EM)


(***************************************************************************)
(* The following rule is a special case of the general temporal logic      *)
(* proof rule STL4 from the paper "The Temporal Logic of Actions".  The    *)
(* general rule is for arbitrary temporal formulas F and G, but it cannot  *)
(* yet be handled by TLAPS.                                                *)
(***************************************************************************)
THEOREM RuleInvImplication ==
  ASSUME STATE F, STATE G,
         F => G
  PROVE  []F => []G
PROOF OMITTED

(***************************************************************************)
(* The following rule is a special case of rule TLA2 from the paper "The   *)
(* Temporal Logic of Actions".                                             *)
(***************************************************************************)
THEOREM RuleStepSimulation ==
  ASSUME STATE I, STATE f, STATE g,
         ACTION M, ACTION N,
         I /\ I' /\ [M]_f => [N]_g
  PROVE  []I /\ [][M]_f => [][N]_g
PROOF OMITTED

(***************************************************************************)
(* The following may be used to invoke a decision procedure for            *)
(* propositional temporal logic.                                           *)
(***************************************************************************)
PropositionalTemporalLogic == TRUE
=============================================================================
