------------------------------- MODULE NumText -------------------------------
(***************************************************************************)
(* The JSON text of a double as the library's serialiser prints it:        *)
(* the SHORTEST decimal digit string that reads back to the same double    *)
(* (nearest to the exact value among the shortest), laid out in plain      *)
(* notation when the decimal exponent E of d1.d2...dn x 10^E is in -5..15  *)
(* and as d1[.d2...dn]e+E / e-E otherwise.  (Format pinned by a            *)
(* conformance run against the real serialiser: harness `numtext`.)        *)
(* Needed only for COMPUTED non-integral numbers; literals carry their     *)
(* text from the wire.                                                     *)
(***************************************************************************)
EXTENDS JsString

\* sign of (m * 2^e) - 10^k, for m > 0
CmpPow10(m, e, k) ==
  LET L == BMul(IF e >= 0 THEN Shl(m, e) ELSE m, IF k < 0 THEN Pow10(-k) ELSE One)
      Rr == BMul(IF k >= 0 THEN Pow10(k) ELSE One, IF e < 0 THEN Shl(One, -e) ELSE One)
  IN BCmp(L, Rr)
\* E with 10^E <= m * 2^e < 10^(E+1)
RECURSIVE FixExp(_, _, _)
FixExp(m, e, E) == IF CmpPow10(m, e, E + 1) >= 0 THEN FixExp(m, e, E + 1)
                   ELSE IF CmpPow10(m, e, E) < 0 THEN FixExp(m, e, E - 1) ELSE E
Exp10(m, e) == FixExp(m, e, ((BitLen(m) + e - 1) * 30103) \div 100000)

\* the two integers around (m * 2^e) / 10^(E - n + 1), nearest first
Around(m, e, E, n) ==
  LET k == E - n + 1
      Nn == BMul(IF e >= 0 THEN Shl(m, e) ELSE m, IF k < 0 THEN Pow10(-k) ELSE One)
      Dn == BMul(IF e < 0 THEN Shl(One, -e) ELSE One, IF k >= 0 THEN Pow10(k) ELSE One)
      qr == BDivMod(Nn, Dn)
      lo == qr[1]
      hi == BAdd(qr[1], One)
      c == BCmp(Shl(qr[2], 1), Dn)
  IN IF qr[2] = <<>> THEN <<lo>>
     ELSE IF c < 0 THEN <<lo, hi>>
     ELSE IF c > 0 THEN <<hi, lo>>
     ELSE IF lo = <<>> \/ lo[1] % 2 = 0 THEN <<lo, hi>> ELSE <<hi, lo>>
RoundTrips(m, e, c, k) == c # <<>> /\ FromDecimal(0, c, k) = Fin(0, m, e)
\* shortest round-tripping decimal: [c |-> BigNat digits value, k |-> decimal exponent of the last digit]
RECURSIVE Shortest(_, _, _, _)
Shortest(m, e, E, n) ==
  LET cs == Around(m, e, E, n)
      k == E - n + 1
  IN IF RoundTrips(m, e, cs[1], k) THEN [c |-> cs[1], k |-> k]
     ELSE IF Len(cs) > 1 /\ RoundTrips(m, e, cs[2], k) THEN [c |-> cs[2], k |-> k]
     ELSE IF n >= 17 THEN [c |-> cs[1], k |-> k]       \* 17 digits always suffice
     ELSE Shortest(m, e, E, n + 1)

RECURSIVE StripZeros(_, _)
\* drop trailing '0' digits of a digit string, counting them
StripZeros(ds, z) == IF Len(ds) > 1 /\ ds[Len(ds)] = 48 THEN StripZeros(SubSeq(ds, 1, Len(ds) - 1), z + 1) ELSE <<ds, z>>
ZeroDigits(n) == [j \in 1..n |-> 48]

\* the text of a finite canonical double (sign s, mantissa m, exponent e)
FloatText(f) ==
  IF f.m = <<>> THEN (IF f.s = 1 THEN <<45, 48, 46, 48>> ELSE <<48, 46, 48>>)
  ELSE LET E0 == Exp10(f.m, f.e)
           sh == Shortest(f.m, f.e, E0, 1)
           sz == StripZeros(DecDigits(sh.c), 0)
           ds == sz[1]
           nd == Len(ds)
           E == sh.k + sz[2] + nd - 1           \* exponent of the first digit
           sign == IF f.s = 1 THEN <<45>> ELSE <<>>
           body == IF E >= 0 /\ E < 16
                   THEN (IF nd <= E + 1 THEN ds \o ZeroDigits(E + 1 - nd) \o <<46, 48>>
                         ELSE SubSeq(ds, 1, E + 1) \o <<46>> \o SubSeq(ds, E + 2, nd))
                   ELSE IF E < 0 /\ E >= -5
                   THEN <<48, 46>> \o ZeroDigits(-E - 1) \o ds
                   ELSE <<ds[1]>> \o (IF nd > 1 THEN <<46>> \o SubSeq(ds, 2, nd) ELSE <<>>)
                        \o <<101>> \o (IF E < 0 THEN <<45>> ELSE <<43>>) \o DecDigits(FromSmall(IF E < 0 THEN -E ELSE E))
       IN sign \o body

\* the text of any JSON number: from the wire when known, else computed
NumText(n) == IF n.x # UnknownText THEN n.x
              ELSE IF n.k = "i" THEN (IF n.s = 1 /\ n.m # <<>> THEN <<45>> ELSE <<>>) \o DecDigits(n.m)
              ELSE FloatText(Fin(n.s, n.m, n.e))
=============================================================================
