#!/usr/bin/env python3
"""C19 (and the Python part of C01): execute TLC-exported PyIface scenarios against the real extension module.
usage: driver.py <scenarios.ndjson> <out.ndjson>      (PYTHONPATH must contain the built jsonlogic_rs package)
Writes one line per disagreement and a summary line; writes <out>.progress before each scenario so that a hard
crash of the interpreter can be attributed."""
import sys, json, math

def aj_to_text(v):
    t = v["t"]
    if t == "z": return "null"
    if t == "b": return "true" if v["v"] else "false"
    if t == "s": return json.dumps("".join(chr(c) for c in v["v"]))
    if t == "n":
        x = v.get("x", [-1])
        if x != [-1]:
            return "".join(chr(c) for c in x)
        m = sum(l << (15 * i) for i, l in enumerate(v["m"]))
        if v["k"] == "i":
            return ("-" if v["s"] else "") + str(m)
        f = math.ldexp(m, v["e"])
        return repr(-f if v["s"] else f)
    if t == "a": return "[" + ",".join(aj_to_text(x) for x in v["v"]) + "]"
    if t == "o": return "{" + ",".join(json.dumps("".join(chr(c) for c in kv[0])) + ":" + aj_to_text(kv[1]) for kv in v["v"]) + "}"
    raise ValueError(t)

BAD = {"empty": "", "truncated": '{"a":[1,2', "garbage": '{"a":1} x', "notjson": "nonsense",
       "deep100k": "[" * 60000 + "]" * 60000, "deepobj100k": '{"a":' * 20000 + "1" + "}" * 20000,
       "nest126": '{"!":' * 126 + "true" + "}" * 126,
       "ffpad": '\x0c{"==":[1,1]}', "nbsppad": "null\xa0", "nelpad": "\x851", "lspad": "[1]\u2028", "twodocs": "1\n2",
       # a Python str that is not encodable as UTF-8 (lone surrogate): not a text the library can be given
       "surrogate": '"\ud800"'}

PYKEYS = {"2": 2, "null": None, "true": True, "2.5": 2.5, "-7": -7}
def pyify(x):
    """A dict that has the key "pykeys" gets the Python spelling of its JSON-representable non-string keys
    (json.dumps turns 2 / None / True / 2.5 back into "2" / "null" / "true" / "2.5": the JSON text is the same)."""
    if isinstance(x, list): return [pyify(y) for y in x]
    if isinstance(x, dict):
        conv = "pykeys" in x
        return {(PYKEYS.get(k, k) if conv else k): pyify(v) for k, v in x.items()}
    return x

def strict_eq(a, b):
    """equal values AND equal types all the way down (1 vs 1.0 differ)"""
    if type(a) != type(b): return False
    if isinstance(a, list): return len(a) == len(b) and all(strict_eq(x, y) for x, y in zip(a, b))
    if isinstance(a, dict): return a.keys() == b.keys() and all(strict_eq(a[k], b[k]) for k in a)
    if isinstance(a, float) and a == 0.0 and b == 0.0: return math.copysign(1, a) == math.copysign(1, b)
    return a == b

def surrogate_case(s):
    """the unencodable text is refused by the str -> UTF-8 conversion itself: UnicodeEncodeError, a ValueError"""
    return any((not s[k].get("valid", True)) and s[k].get("cls") == "surrogate" for k in ("value", "data"))

def main():
    import jsonlogic_rs
    scen_path, out_path = sys.argv[1], sys.argv[2]
    start = int(sys.argv[3]) if len(sys.argv) > 3 else 0      # resume after a scenario that hung
    out = open(out_path, "a" if start else "w")
    n = ok = bad = 0
    samples = []
    for ln, line in enumerate(open(scen_path)):
        if not line.strip(): continue
        if ln < start: continue
        s = json.loads(line)
        open(out_path + ".progress", "w").write("%d\n%s" % (ln, line))
        n += 1
        calls = {"ser": 0, "deser": 0}
        def custom_ser(x):
            calls["ser"] += 1
            return json.dumps(x, separators=(",", ":"))
        def custom_deser(t):
            calls["deser"] += 1
            return ("D", json.loads(t))
        entry = s["entry"]
        kwargs = {}
        desc = ""
        try:
            if entry == "apply":
                if s["value"]["valid"]:
                    value = pyify(json.loads(aj_to_text(s["value"]["v"])))
                else:
                    value = float("nan")          # class "pynan": dumps gives the malformed text NaN
                args = [value]
                if not s["data"].get("omitted"):
                    data = pyify(json.loads(aj_to_text(s["data"]["v"]))) if s["data"]["valid"] else float("nan")
                    args.append(data)
                # the optional arguments by position where the call allows it (value, data, serializer, deserializer),
                # by keyword otherwise: both spellings are the documented interface
                if s["ser"] == "custom" and len(args) == 2:
                    args.append(custom_ser)
                    if s["deser"] == "custom": args.append(custom_deser)
                else:
                    if s["ser"] == "custom": kwargs["serializer"] = custom_ser
                    if s["deser"] == "custom": kwargs["deserializer"] = custom_deser
                desc = "apply(%s%s)" % (", ".join(("<custom>" if callable(a) else json.dumps(a)) if not (isinstance(a, float) and a != a) else "nan" for a in args), "".join(", %s=<custom>" % k for k in kwargs))
                got = jsonlogic_rs.apply(*args, **kwargs)
            else:
                vt = aj_to_text(s["value"]["v"]) if s["value"]["valid"] else BAD[s["value"]["cls"]]
                args = [vt]
                if not s["data"].get("omitted"):
                    args.append(aj_to_text(s["data"]["v"]) if s["data"]["valid"] else BAD[s["data"]["cls"]])
                if s["deser"] == "custom": kwargs["deserializer"] = custom_deser
                desc = "apply_serialized(%s%s)" % (", ".join(repr(a) for a in args), "".join(", %s=<custom>" % k for k in kwargs))
                got = jsonlogic_rs.apply_serialized(*args, **kwargs)
            actual = {"kind": "return", "repr": repr(got)}
        except BaseException as e:          # SystemError / PanicException / TypeError must all be seen
            got = None
            actual = {"kind": "raise", "exc": type(e).__name__, "msg": str(e)[:200], "is_value_error": isinstance(e, ValueError)}
        exp = s["exp"]
        why = None
        if exp["kind"] == "raise":
            if actual["kind"] != "raise":
                why = "returned %s, expected %s" % (actual["repr"], exp["exc"])
            elif actual["exc"] != exp["exc"] and not (surrogate_case(s) and exp["exc"] == "ValueError" and actual["is_value_error"]):
                why = "raised %s (%s), expected %s" % (actual["exc"], actual["msg"], exp["exc"])
        else:
            want = json.loads(aj_to_text(exp["v"]))
            if exp["via"] == "custom":
                want = ("D", want)
            if actual["kind"] != "return":
                why = "raised %s (%s), expected the value %r" % (actual["exc"], actual["msg"], want)
            else:
                # spec-computed non-integral numbers have no text: compare numerically there, strictly elsewhere
                loose = "[-1]" in json.dumps(exp["v"]).replace(" ", "")
                same = (got == want) if loose else strict_eq(got, want)
                if not same:
                    why = "returned %r, expected %r" % (got, want)
                elif s["deser"] == "custom" and calls["deser"] != 1:
                    why = "the supplied deserializer was called %d times" % calls["deser"]
                elif entry == "apply" and s["ser"] == "custom" and calls["ser"] != 2:
                    why = "the supplied serializer was called %d times, expected 2" % calls["ser"]
        if why is None:
            ok += 1
            if len(samples) < 4:
                samples.append({"call": desc, "result": actual})
        else:
            bad += 1
            kind = "crash" if actual.get("exc") in ("SystemError", "PanicException") else "mismatch"
            out.write(json.dumps({"kind": kind, "why": why, "sc": ["C19"], "entry": "python", "rule": desc, "data": "", "expected": exp, "actual": actual, "profile": "python-ext-release"}) + "\n")
    out.write(json.dumps({"summary": True, "cases": n, "matched": ok, "mismatched": bad, "crashed": 0, "hung": 0, "samples": samples, "profile": "python-ext-release"}) + "\n")
    out.close()

if __name__ == "__main__":
    main()
