// Ground truth from a real ECMAScript engine (node), produced ONCE and committed; the checks never run node.
// Usage: node fixtures/gen_es.js  (writes fixtures/es_rel.ndjson, fixtures/es_num.ndjson)
const fs = require('fs');
function limbs(n) { const out = []; while (n > 0n) { out.push(Number(n & 32767n)); n >>= 15n; } return out; }
function cps(s) { return Array.from(s).map(c => c.codePointAt(0)); }
function fdec(f) { // canonical (s, m, e)
  const dv = new DataView(new ArrayBuffer(8)); dv.setFloat64(0, f);
  const bits = dv.getBigUint64(0); const s = Number(bits >> 63n); const e = Number((bits >> 52n) & 0x7ffn); const fr = bits & ((1n << 52n) - 1n);
  if (e === 0) return fr === 0n ? [s, 0n, 0] : [s, fr, -1074];
  return [s, fr | (1n << 52n), e - 1075];
}
function fl(f) { // a double in the spec's Float64 form
  if (Number.isNaN(f)) return {k: "nan"};
  if (f === Infinity) return {k: "pinf"}; if (f === -Infinity) return {k: "ninf"};
  const [s, m, e] = fdec(f); return {k: "fin", s: s, m: limbs(m), e: e};
}
function aj(v) { // JS value -> AJ; a number's text is JS String(n)
  if (v === null) return {t: "z"};
  if (typeof v === "boolean") return {t: "b", v: v};
  if (typeof v === "string") return {t: "s", v: cps(v)};
  if (typeof v === "number") { const [s, m, e] = fdec(v); return {t: "n", k: "f", s: s, m: limbs(m), e: e, x: cps(String(v))}; }
  if (Array.isArray(v)) return {t: "a", v: v.map(aj)};
  return {t: "o", v: Object.keys(v).sort().map(k => [cps(k), aj(v[k])])};
}
const corpus = JSON.parse(fs.readFileSync(__dirname + '/../corpus/C07.json', 'utf8'));
const vals = corpus.V7.concat(corpus.V9);
// fresh instances for every comparison: parse again
const texts = vals.map(v => JSON.stringify(v));
const uniq = Array.from(new Set(texts));
// code points vs UTF-16 code units: JS orders strings by code unit; exclude pairs where that differs from code point order
function cuDiffers(a, b) { const sa = String(a), sb = String(b); return (sa < sb) !== (cps(sa) < cps(sb) ? true : false); }
function cpLt(a, b) { const x = cps(a), y = cps(b); for (let i = 0; i < Math.min(x.length, y.length); i++) { if (x[i] !== y[i]) return x[i] < y[i]; } return x.length < y.length; }
let out = fs.createWriteStream(__dirname + '/es_rel.ndjson');
let n = 0, skipped = 0;
for (const ta of uniq) for (const tb of uniq) {
  const a = JSON.parse(ta), b = JSON.parse(tb);
  const pa = (typeof a === "object" && a !== null) ? String(a) : a, pb = (typeof b === "object" && b !== null) ? String(b) : b;
  if (typeof pa === "string" && typeof pb === "string" && (pa < pb) !== cpLt(pa, pb)) { skipped++; continue; }
  out.write(JSON.stringify({a: aj(a), b: aj(b), eq: a == b, seq: a === b, lt: a < b, lte: a <= b, gt: a > b, gte: a >= b}) + "\n"); n++;
}
out.end();
// Number(s) and parseFloat(s)
const alpha = ['0', '1', '5', '.', 'e', '+', '-', ' ', 'x', 'a'];
let strs = [''];
let layer = [''];
for (let len = 1; len <= 4; len++) { const next = []; for (const p of layer) for (const c of alpha) next.push(p + c); strs = strs.concat(next); layer = next; }
const curated = ["0x10", "0X1F", "0o17", "0O17", "0b11", "0B11", "0x", "0xg", "0b2", "0o8", "-0x10", "+0x10", "0x1.8", "Infinity", "+Infinity", "-Infinity", "infinity", "INFINITY", "Infinityx", " Infinity ", "Inf", "inf", "nan", "NaN",
  "﻿1", "1﻿", "\u00851", "　1", "᠎1", " 1", " 1", " 1", "\t\n\u000b\u000c\r 1", "１", "١", "1e1000", "-1e1000", "1e-1000", "1e400", "1e-400", "1e308", "1.8e308", "1.7976931348623157e308", "1.7976931348623158e308", "1.7976931348623159e308",
  "5e-324", "2.4703282292062327e-324", "2.4703282292062328e-324", "2.5e-324", "4.9e-324", "2.2250738585072014e-308", "2.2250738585072011e-308", "2.225073858507201e-308",
  "123456789012345678901234567890", "0.000000000000000000000000000001", "9007199254740993", "9007199254740992", "9007199254740991", "18446744073709551615", "18446744073709551616", "9223372036854775807", "9223372036854775808",
  "1.", ".1", ".", "1.e1", ".e1", "1e1.5", "1e+5", "1e-5", "1E5", "1e+", "1e-", "1e", "1-2", "1+2", "--1", "+-1", "1..2", "1.5.3", "12px", "px12", " 7 ", "1,2", "1_000", "0.1", "0.2", "0.30000000000000004", "4.35", "0.000001", "1e21", "1e-7", "00", "01", "-0", "+0", "-0.0", "0e5", "1e00005", "1e-00005", "3.141592653589793", "2.718281828459045", "1e23", "8.5e-322", "9.999999999999999e22",
  // radix literals with more than 53 significant bits: correct rounding (to nearest, ties to even) of the exact value
  "0x200000000000021", "0x200000000000011", "0x200000000000010", "0x200000000000030", "0x20000000000001", "0x1fffffffffffff8", "0x3fffffffffffff", "0x1fffffffffffff", "0x20000000000000",
  "0xfffffffffffff800", "0xfffffffffffffbff", "0xfffffffffffffc00", "0x7ffffffffffffc00", "0x10000000000000000", "0x1000000000000001", "0x123456789abcdef01",
  "0b1000000000000000000000000000000000000000000000000000001", "0b10000000000000000000000000000000000000000000000000000011", "0b100000000000000000000000000000000000000000000000000000101",
  "0o400000000000000001", "0o400000000000000003", "0o777777777777777777777", "0o1000000000000000000001", "0X1FFFFFFFFFFFFF7", "0B11111111111111111111111111111111111111111111111111111",
  // halfway cases whose tie is broken only by a digit far beyond 120 bits
  "0x100000000000008000000000000000000001", "0x100000000000008000000000000000000000", "0x10000000000000800000000000000000000000000000000000000003", "0o10000000000000000040000000000000000000000000000001", "0b100000000000000000000000000000000000000000000000000001000000000000000000000000000000000000000000000000000000000000000000000000000000001", "0b100000000000000000000000000000000000000000000000000001000000000000000000000000000000000000000000000000000000000000000000000000000000000", "0x100000000000007fffffffffffffffffffffffff",
  "9007199254740993", "9007199254740995", "18014398509481985", "18014398509481987", "4503599627370497.5", "4503599627370496.5", "0.1e-322", "1.0000000000000002", "1.00000000000000011102230246251565404236316680908203125",
  "1.00000000000000011102230246251565404236316680908203124", "1.00000000000000011102230246251565404236316680908203126"];
strs = strs.concat(curated);
let o2 = fs.createWriteStream(__dirname + '/es_num.ndjson');
for (const s of strs) o2.write(JSON.stringify({s: cps(s), num: fl(Number(s)), pf: fl(parseFloat(s))}) + "\n");
o2.end();
console.log("pairs", n, "skipped (code unit vs code point order)", skipped, "strings", strs.length);
