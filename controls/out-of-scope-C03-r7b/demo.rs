use jsonlogic_rs::apply;
use serde_json::json;

/// An operator with an operand count outside its documented set is rejected
/// wherever it is written - also as the element expression of map / filter,
/// and whatever collection those happen to run over.
#[test]
fn ill_formed_expression_is_rejected_for_every_collection() {
    let bad = [
        json!({"==": [{"var": ""}]}),       // == takes exactly two
        json!({"!": [1, 2]}),               // ! takes exactly one
        json!({"substr": ["abc"]}),         // substr takes two or three
        json!({"reduce": [[1], 1]}),        // reduce takes exactly three
        json!({"var": ["a", 0, "surplus"]}) // var takes zero to two
    ];
    let collections = [json!([1, 2]), json!([]), json!(null), json!({"var": "none"})];
    for op in ["map", "filter"] {
        for expr in &bad {
            for coll in &collections {
                let rule = json!({ op: [coll, expr] });
                let res = apply(&rule, &json!({"xs": []}));
                assert!(res.is_err(), "{} accepted as {:?}", rule, res);
            }
        }
    }
}

/// Well-formed rules over empty collections are unaffected.
#[test]
fn empty_collections_still_map_to_empty() {
    let d = json!({"xs": []});
    assert_eq!(apply(&json!({"map": [[], {"*": [{"var": ""}, 2]}]}), &d).unwrap(), json!([]));
    assert_eq!(apply(&json!({"filter": [{"var": "xs"}, {"var": ""}]}), &d).unwrap(), json!([]));
    assert_eq!(apply(&json!({"map": [null, 1]}), &d).unwrap(), json!([]));
}
