"""Per-property check plans: which model modules, which replays, which recorded traces."""
import json, os, shutil, hashlib
import vcheck
from vcheck import ToolError, log


def aj_text(v):
    """Plain JSON text of an AJ value (for reports)."""
    if v is None:
        return "?"
    t = v.get("t")
    if t == "z":
        return "null"
    if t == "b":
        return "true" if v["v"] else "false"
    if t == "s":
        return json.dumps("".join(chr(c) for c in v["v"]), ensure_ascii=False)
    if t == "n":
        x = v.get("x", [-1])
        if x != [-1]:
            return "".join(chr(c) for c in x)
        m = sum(l << (15 * i) for i, l in enumerate(v["m"]))
        val = m * (2.0 ** v["e"]) if v["k"] == "f" else m
        return ("-" if v["s"] else "") + repr(val)
    if t == "a":
        return "[" + ",".join(aj_text(x) for x in v["v"]) + "]"
    if t == "o":
        return "{" + ",".join(json.dumps("".join(chr(c) for c in kv[0]), ensure_ascii=False) + ":" + aj_text(kv[1]) for kv in v["v"]) + "}"
    return "?"


def ncorp(fname, key):
    """number of values of a corpus entry (so that the coverage descriptions follow the corpora)"""
    try:
        return len(json.load(open(os.path.join(vcheck.VERIF, "corpus", fname)))[key])
    except Exception:
        return -1


class Ctx:
    def __init__(self, pid, tier, seed, wd):
        self.pid, self.tier, self.seed, self.wd = pid, tier, seed, wd
        self.deep = tier == "thorough"
        self.verdicts = vcheck.Verdicts(pid, wd)
        self.assumptions = []
        self.states = 0
        self.transitions = 0
        self.evaluations = 0
        self.validated = 0
        self.nontrivial = set()
        self.samples = []
        self.notes = {}
        self.rule = ""
        self.exhaustive = None
        self._bins = None
        self._corpus = None
        self.tlc_runs = []

    # ---- builds
    def bins(self, profiles=("debug", "release")):
        if self._bins is None:
            self._bins = {}
        need = [p for p in profiles if p not in self._bins]
        if need:
            self._bins.update(vcheck.build_harness(need))
        return {p: self._bins[p] for p in profiles}

    def corpus(self):
        if self._corpus is None:
            b = self.bins(("debug",))["debug"]
            self._corpus = vcheck.encode_corpus(b, self.wd)
        return self._corpus

    # ---- TLC on the specification + export
    def mc(self, module, cfg=None, env=None, workers=None, timeout=None, extra=None, tag=None, export=True):
        """Model-check spec/mc/<module>; returns the path of the exported cases (or None)."""
        self.corpus()
        tag = tag or module
        cases = os.path.join(self.wd, "cases-%s.ndjson" % tag)
        if os.path.exists(cases):
            os.remove(cases)
        e = {"VERIF_CASES": cases, "VERIF_SEED": str(self.seed)}
        if env:
            e.update(env)
        res = vcheck.run_tlc(self.wd, module, cfg=cfg, env=e, workers=workers,
                             timeout=timeout or (7200 if self.deep else 1500), extra=extra, tag=tag)
        vcheck.tlc_must_pass(res)
        self.states += res["distinct"]
        self.transitions += res["states"]
        self.tlc_runs.append({"module": module, "tag": tag, "distinct_states": res["distinct"], "states_generated": res["states"], "wall_s": round(res["wall_s"], 1)})
        log("  TLC %s: %d distinct states, %d generated, %.1fs: all invariants hold on the specification" % (tag, res["distinct"], res["states"], res["wall_s"]))
        if not export:
            return None
        if not os.path.exists(cases):
            raise ToolError("model %s exported no cases" % module)
        return cases

    # ---- direction A
    def replay(self, cases, profiles=("debug", "release"), extra=None, source=None, events=False):
        """events=True: the hook-event stream of every replayed call (first profile) is also validated by TLC
        against the small-step machine (an operand evaluated twice or needlessly is a rejected trace even when the
        result is unchanged)."""
        bins = self.bins(profiles)
        first = True
        evfile = cases.replace(".ndjson", "") + ".events.ndjson" if events else None
        for prof in profiles:
            out = cases.replace(".ndjson", "") + ".replay-%s.ndjson" % prof
            ex = list(extra or [])
            if events and first:
                ex += ["--events", evfile]
            summary, mism = vcheck.replay(bins[prof], cases, out, extra=ex)
            self.evaluations += summary["cases"]
            self.validated += summary["matched"]
            for r in mism:
                self.verdicts.add(r, (source or os.path.basename(cases)) + "/" + prof)
            if first:
                first = False
                for s in summary.get("samples", []):
                    if len(self.samples) < 8:
                        self.samples.append(s)
                with open(cases) as f:
                    for line in f:
                        c = json.loads(line)
                        if c.get("fl", {}).get("nt", True):
                            self.nontrivial.add(hashlib.md5((json.dumps(c["rule"], sort_keys=True) + json.dumps(c["data"], sort_keys=True) + json.dumps(c.get("fn", ""))).encode()).digest())
            log("  replay %s [%s]: %d cases, %d agree, %d mismatch, %d crash, %d hang" % (
                os.path.basename(cases), summary["profile"], summary["cases"], summary["matched"], summary["mismatched"], summary["crashed"], summary["hung"]))
        if events:
            self.validate_events(evfile, source or os.path.basename(cases))

    # ---- direction B: hook-event streams validated by TLC against Machine (spec/tv/TV_Events.tla)
    def validate_events(self, events_path, source, sc=None, max_rejects=25):
        """Every call's event stream must be a behaviour of the machine. A rejected call is recorded as a
        violation, removed from the stream, and the remainder is validated again."""
        sc = sc or [self.pid]
        lines = open(events_path).read().splitlines()
        total_calls = sum(1 for l in lines if '"ev":"call"' in l)
        rejected = 0
        rnd = 0
        while True:
            rnd += 1
            cur = os.path.join(self.wd, "events-cur.ndjson")
            with open(cur, "w") as f:
                f.write("\n".join(lines) + "\n")
            res = vcheck.run_tlc(self.wd, "TV_Events", env={"VERIF_TRACE": cur, "TLC_JVM": "-Dtlc2.tool.queue.IStateQueue=StateDeque"},
                                 workers=1, timeout=3600, subdir="tv", tag="TV_Events_%s_%d" % (os.path.basename(events_path).split(".")[0], rnd))
            self.states += res["distinct"]
            self.transitions += res["states"]
            self.tlc_runs.append({"module": "TV_Events", "round": rnd, "events": len(lines), "distinct_states": res["distinct"], "states_generated": res["states"], "wall_s": round(res["wall_s"], 1)})
            m = None
            import re
            m = re.search(r'<<"REJECTED", (\d+), "(\w+)">>', res["out"])
            inv = re.search(r"Invariant (\w+) is violated", res["out"])
            if "No error has been found" in res["out"] and not m:
                break
            if not m and not inv:
                raise ToolError("TV_Events failed without a verdict:\n" + "\n".join(res["out"].splitlines()[-40:]))
            if m:
                idx = int(m.group(1)) - 1      # 0-based index of the first unmatched event
                why = "event stream rejected by the machine at event %d (%s): %s" % (idx + 1, m.group(2), lines[idx][:200] if idx < len(lines) else "<end of stream>")
            else:
                # an invariant of the machine violated on the trace-driven state: locate via the l variable in the trace
                ls = re.findall(r"/\\ l = (\d+)", res["out"])
                idx = (int(ls[-1]) - 2) if ls else 0
                why = "machine invariant %s violated while following the event stream (event %d)" % (inv.group(1), idx + 1)
            idx = min(idx, len(lines) - 1)
            start = idx
            while start > 0 and '"ev":"call"' not in lines[start]:
                start -= 1
            end = start + 1
            while end < len(lines) and '"ev":"call"' not in lines[end]:
                end += 1
            call = json.loads(lines[start])
            rec = {"kind": "trace-rejected", "why": why, "sc": sc, "rule": aj_text(call.get("rule")), "data": aj_text(call.get("data")),
                   "expected": "a behaviour of spec/Machine.tla explaining the recorded events", "actual": [l[:160] for l in lines[start:end]][:40],
                   "profile": "debug", "case": {"rule": call.get("rule"), "data": call.get("data"), "exp": {"ok": False, "v": {"t": "z"}, "log": []}, "note": "event-stream violation; the in-process replay only re-runs the call"}}
            self.verdicts.add(rec, source + "/events")
            rejected += 1
            del lines[start:end]
            if rejected >= max_rejects or not lines:
                log("  (stopped after %d rejected calls)" % rejected)
                break
        ok_calls = total_calls - rejected
        self.validated += ok_calls
        self.evaluations += total_calls
        self.notes.setdefault("event_streams", []).append({"source": source, "calls": total_calls, "events": sum(1 for _ in open(events_path)), "accepted_calls": ok_calls, "rejected_calls": rejected})
        log("  TV_Events %s: %d calls, %d accepted by the machine, %d rejected" % (source, total_calls, ok_calls, rejected))

    # ---- direction B: seeded random records validated by TLC against the big-step specification (spec/tv/TV_Call.tla)
    def records(self, family, n=None, batches=None):
        import re
        n = n or (40000 if self.deep else 4000)
        batch = 20000
        b = self.bins(("release",))["release"]
        done = 0
        k = 0
        verd = {"ok": 0, "skipped": 0, "bad": 0}
        while done < n:
            m = min(batch, n - done)
            k += 1
            rec = os.path.join(self.wd, "records-%s-%d.ndjson" % (family, k))
            rc, out = vcheck.run([b, "record", family, str(m), str(self.seed * 1000 + k), rec], stdout=__import__("subprocess").DEVNULL, stderr=__import__("subprocess").PIPE)
            if rc != 0:
                raise ToolError("harness record failed: " + out[-1500:])
            lines = open(rec).read().splitlines()
            res = vcheck.run_tlc(self.wd, "TV_Call", env={"VERIF_TRACE": rec}, timeout=3600, subdir="tv", tag="TV_Call_%s_%d" % (family, k))
            if "Model checking completed. No error has been found." not in res["out"]:
                raise ToolError("TV_Call failed:\n" + "\n".join(res["out"].splitlines()[-40:]))
            self.states += res["distinct"]
            self.transitions += res["states"]
            self.tlc_runs.append({"module": "TV_Call", "family": family, "records": len(lines), "distinct_states": res["distinct"], "states_generated": res["states"], "wall_s": round(res["wall_s"], 1)})
            bad = {}
            for mm in re.finditer(r'<<"VERDICT", (\d+), "([\w-]+)">>', res["out"]):
                bad[int(mm.group(1))] = mm.group(2)
            for i, why in sorted(bad.items()):
                r = json.loads(lines[i - 1])
                if why == "skipped":
                    verd["skipped"] += 1
                    continue
                verd["bad"] += 1
                self.verdicts.add({"kind": "crash" if why == "crash" else "mismatch", "why": "recorded call disagrees with the specification (%s)" % why,
                                   "sc": [] if why in ("variant-drift", "open-body") else [self.pid],
                                   "rule": r["plain"]["rule"], "data": r["plain"]["data"], "expected": "Eval(rule, data) of spec/JsonLogic.tla", "actual": r["plain"]["out"], "profile": "release",
                                   "case": {"rule": r["rule"], "data": r["data"], "exp": {"ok": False, "v": {"t": "z"}, "log": []}, "note": "recorded call; bin/replay re-runs it"}}, "records-" + family)
            verd["ok"] += len(lines) - len(bad)
            if len(self.samples) < 8 and lines:
                self.samples.append({"recorded_call": json.loads(lines[0])["plain"]})
            for ln in lines:
                self.nontrivial.add(hashlib.md5(ln.encode()).digest())
            done += m
        self.evaluations += done
        self.validated += verd["ok"]
        self.notes.setdefault("recorded_calls", []).append({"family": family, "records": done, "conform": verd["ok"], "skipped_unknown_number_text": verd["skipped"], "disagree": verd["bad"]})
        log("  TV_Call %s: %d recorded calls of the real interpreter, %d conform to the specification, %d skipped (number text unknown to the spec), %d disagree" % (
            family, done, verd["ok"], verd["skipped"], verd["bad"]))

    def machine(self, fam, live=True, profiles=("debug", "release")):
        """Model-check the small-step machine on a family, replay its terminal states, validate the hook events."""
        cases = self.mc("MC_Machine", env={"VERIF_FAMILY": fam}, tag="MC_Machine_" + fam)
        if live:
            self.mc("MC_Machine", cfg="MC_Machine_live", env={"VERIF_FAMILY": fam}, tag="MC_Machine_live_" + fam, export=False)
        ev = os.path.join(self.wd, "events-%s.ndjson" % fam)
        self.replay(cases, profiles=profiles[:1], extra=["--events", ev], source="machine-" + fam)
        if len(profiles) > 1:
            self.replay(cases, profiles=profiles[1:], source="machine-" + fam)
        self.validate_events(ev, "machine-" + fam)

    def coverage(self):
        cov = {
            "states": self.states, "transitions": self.transitions,
            "traces_validated_against_impl": self.validated,
            "evaluations": self.evaluations,
            "distinct_nontrivial": len(self.nontrivial),
            "rule": self.rule,
            "samples": self.samples[:8] or [{"note": "no sample recorded"}],
            "tlc_runs": self.tlc_runs,
            "known_finding_hits": {k: n for k, (_, n) in self.verdicts.knownhits.items()},
            "spec_drift_cases": len(self.verdicts.drift),
        }
        if self.exhaustive is not None:
            cov["exhaustive"] = self.exhaustive
        cov.update(self.notes)
        return cov


def plan_C06(ctx):
    ctx.rule = ("TLC enumerates every corpus value (V6: %d literals, E6: %d operator expressions) x 19 deciding positions x 5 ways of reaching "
                "the value, and all pairs of %d look-alike values as members of one collection under filter / map / all / some / merge; one case per distinct TLC state; "
                "a case is non-trivial when its outcome depends on the truthiness decision (all are)" % (ncorp("C06.json", "V6"), ncorp("C06.json", "E6"), ncorp("C06.json", "LA6") + ncorp("C06.json", "LR6")))
    cases = ctx.mc("MC_C06")
    ctx.replay(cases, events=True)
    ctx.records("ctl")
    ctx.exhaustive = True   # the TLC-enumerated family; the random records on top of it are sampled


def plan_C02(ctx):
    ctx.rule = ("TLC enumerates the literal corpus L2 (%d values: scalars, strings that are themselves JSON texts, arrays with operation-shaped elements, multi-key and near-miss-key objects) x 8 data values, "
                "12 near-miss transforms of each of the 35 operator names computed in the specification, dispatch of all 35 names, and every literal "
                "nested as an operand/branch result or as a member of a literal collection, ill-formed operand lists and the bracket-less spelling {op: x} of all 35 names (never a literal); "
                "one case per distinct TLC state" % ncorp("C02.json", "L2"))
    cases = ctx.mc("MC_C02")
    ctx.replay(cases, events=True)
    ctx.records("mix")
    ctx.exhaustive = True   # the TLC-enumerated family; the random records on top of it are sampled


def plan_C03(ctx):
    ctx.rule = ("TLC enumerates 35 operators x operand counts 0..6 and 255..259, 512, 513 x (3 benign + 5 arbitrary operand tuples), the bracket-less spelling of every "
                "operator with 20 non-array operands (checked as a relation between the two spellings in the code), and 18 placements of an "
                "arity error (selected/unselected branch, eager parent, after the deciding operand, default expression, element expression of every iteration); "
                "the variant of the error (InvalidOperation / WrongArgumentCount) is part of the specification's outcome; one case per TLC state")
    cases = ctx.mc("MC_C03")
    ctx.replay(cases, events=True)
    ctx.records("mix")
    ctx.exhaustive = True   # the TLC-enumerated family; the random records on top of it are sampled


def es_fixture_crosscheck(ctx):
    """The ECMA-262 transcriptions of the specification against ground truth recorded from a real engine."""
    ctx.mc("MC_ES", env={"VERIF_FIXTURES": os.path.join(vcheck.VERIF, "fixtures")}, export=False)


def strnum(ctx):
    """11k strings through the implementation's string->number conversions (helpers and rules)."""
    cases = ctx.mc("MC_StrNum", env={"VERIF_FAMILY": ctx.pid, "VERIF_FIXTURES": os.path.join(vcheck.VERIF, "fixtures")}, tag="MC_StrNum")
    ctx.replay(cases, source="strnum")


def plan_rel(ctx):
    pid = ctx.pid
    what = {"C07": "== and != (119-value corpus V7, all 14161 ordered pairs)", "C08": "=== and !== (119-value corpus V7, all ordered pairs; same-variable container case)",
            "C09": "< <= > >= (70-value corpus V9, all 4900 ordered pairs; triples over a %d-value sub-corpus)" % (24 if ctx.deep else 14)}[pid]
    ctx.rule = ("TLC enumerates %s through literal operands, through var, and through the public js_op helpers; one case per distinct TLC state. "
                "The specification's ES transcription is cross-checked in TLC against 14k pair results and 11k Number()/parseFloat() results recorded from node 20" % what)
    es_fixture_crosscheck(ctx)
    cases = ctx.mc("MC_Rel", env={"VERIF_FAMILY": pid}, tag="MC_Rel_" + pid)
    ctx.replay(cases)
    if pid in ("C07", "C09"):
        strnum(ctx)
    ctx.records({"C07": "rel07", "C08": "rel08", "C09": "rel09"}[pid])
    ctx.exhaustive = True   # the TLC-enumerated family; the random records on top of it are sampled


def plan_C10(ctx):
    ctx.rule = ("TLC enumerates operand tuples over the numeric corpus N10 (%d values: integers around 2^53/2^63/2^64, 1e-320..1.8e308, coercible strings/arrays/"
                "null/booleans/objects): all tuples of length 0..2 for + * max min, all pairs for - / %%, unary -, length 3 over 18 values, length 4%s over 6 values; "
                "plus the public js_op helpers; results are compared bit-for-bit (sign, mantissa, exponent) and by spelling class; one case per TLC state" % (ncorp("C10.json", "N10"), " and 5" if ctx.deep else ""))
    es_fixture_crosscheck(ctx)
    cases = ctx.mc("MC_C10")
    ctx.replay(cases)
    strnum(ctx)
    ctx.records("arith")
    ctx.exhaustive = True   # the TLC-enumerated family; the random records on top of it are sampled


def plan_C11(ctx):
    ctx.rule = ("TLC enumerates %d data trees (objects with dotted/backslashed/numeric/non-ASCII keys, nested arrays, strings, scalars, rule-shaped data) x %d keys "
                "(escaped paths, integer keys incl. all 64-bit boundaries, negative indices, null, \"\", ill-typed) x 6 forms (with/without default, bracket-less, "
                "operand-less, computed key, data extended with an unnamed sibling) x 5 defaults; one case per TLC state; cases whose key the statement leaves open are drift-only" % (ncorp("C11.json", "T11"), ncorp("C11.json", "K11")))
    cases = ctx.mc("MC_C11")
    ctx.replay(cases, events=True)
    ctx.records("data11")
    ctx.exhaustive = True   # the TLC-enumerated family; the random records on top of it are sampled


def plan_C12(ctx):
    ctx.rule = ("TLC enumerates 7 data trees x all key lists of length 0..%d over 12 keys (dotted/escaped paths, integer, null, u64, duplicates) x 4 spellings of missing "
                "(operand list, first-operand array, computed list, array plus extra operand) and missing_some with thresholds 0..5 (literal and computed lists); "
                "one case per TLC state" % (4 if ctx.deep else 3))
    cases = ctx.mc("MC_C12")
    ctx.replay(cases)
    ctx.records("data12")
    ctx.exhaustive = True   # the TLC-enumerated family; the random records on top of it are sampled


def plan_C13(ctx):
    ctx.rule = ("TLC enumerates %d collections (literal, var/merge/filter-computed, null, non-arrays, erroring, falsy scalars) x %d element expressions (identity, field, arithmetic, "
                "outer reference, non-commutative cat, nested map/filter/reduce, log probes, poisons) x 2 outer data for map and filter, and x %d reducer expressions x %d "
                "initial values for reduce; values, Ok/Err and the exact log sequence are compared; one case per TLC state" % (ncorp("C13.json", "CO13"), ncorp("C13.json", "EX13"), ncorp("C13.json", "RX13"), ncorp("C13.json", "IN13")))
    cases = ctx.mc("MC_C13")
    ctx.replay(cases, events=True)
    ctx.machine("C13")
    ctx.records("arr")
    ctx.exhaustive = True   # the TLC-enumerated family; the random records on top of it are sampled


def plan_C14(ctx):
    ctx.rule = ("TLC enumerates all/some/none x %d collections (literal arrays with expression, log-probe and poison elements; computed arrays incl. rule-shaped data; "
                "literal and computed strings over ASCII/2-/3-/4-byte characters; null; empty; non-collections) x %d predicates x 3 data; values, Ok/Err and the exact "
                "log sequence (= which elements were evaluated) are compared; one case per TLC state" % (ncorp("C14.json", "CO14"), ncorp("C14.json", "PR14")))
    cases = ctx.mc("MC_C14")
    ctx.replay(cases, events=True)
    ctx.machine("C14")
    ctx.records("arr")
    ctx.exhaustive = True   # the TLC-enumerated family; the random records on top of it are sampled


def plan_C15(ctx):
    ctx.rule = ("TLC enumerates merge over all operand lists of length 0..%d from 15 values (nested arrays, objects, scalars) plus the bracket-less form, and in over "
                "%d needles x %d haystacks (number spellings 1/1.0/1e0/0/-0.0, nested containers, objects with reordered keys, non-ASCII substrings, ill-typed pairs), "
                "as literals and through var; one case per TLC state" % (4 if ctx.deep else 3, ncorp("C15.json", "NE15"), ncorp("C15.json", "HS15")))
    cases = ctx.mc("MC_C15")
    ctx.replay(cases, events=True)
    ctx.records("arr")
    ctx.exhaustive = True   # the TLC-enumerated family; the random records on top of it are sampled


def plan_C16(ctx):
    ctx.rule = ("TLC enumerates cat over operand lists of length 0..2 from 34 values (numbers in several spellings, nested arrays with nulls, objects) and length 3 over 10 values, "
                "and substr over all strings of length 0..%d from {a, e-acute, euro sign, emoji} x 18 start values x (absent + 18 length values) incl. the 64-bit extremes; "
                "one case per TLC state" % (4 if ctx.deep else 3))
    cases = ctx.mc("MC_C16")
    ctx.replay(cases)
    ctx.records("str")
    ctx.exhaustive = True   # the TLC-enumerated family; the random records on top of it are sampled


def suite_traces(ctx):
    """The CCF lesson: run the repository's OWN test suite with the hooks on and the trace sink set, and let TLC
    validate every apply call it made (result and hook-event stream) against the specification."""
    import shutil, subprocess
    sd = os.path.join(vcheck.WORK, "suite")
    os.makedirs(sd, exist_ok=True)
    sink = os.path.join(sd, "trace.ndjson")
    if os.path.exists(sink):
        os.remove(sink)
    rc, out = vcheck.run(["cargo", "test", "--offline", "--target-dir", os.path.join(sd, "target")], cwd="/repo",
                         env={"RUSTFLAGS": "--cfg jsonlogic_rs_verif --check-cfg cfg(jsonlogic_rs_verif)", "JSONLOGIC_RS_VERIF_TRACE": sink, "CARGO_NET_OFFLINE": "true"}, timeout=1800)
    shutil.rmtree(os.path.join(sd, "target"), ignore_errors=True)      # 630 MB of dev-dependency build output
    if rc != 0 and not os.path.exists(sink):
        raise ToolError("could not run the repository's tests with hooks on:\n" + out[-2000:])
    b = ctx.bins(("release",))["release"]
    ev = os.path.join(ctx.wd, "suite-events.ndjson")
    rec = os.path.join(ctx.wd, "suite-records.ndjson")
    rc, out = vcheck.run([b, "convert-trace", sink, ev, rec])
    if rc != 0:
        raise ToolError("convert-trace failed: " + out[-1000:])
    info = json.loads(out.strip().splitlines()[-1])
    import re
    res = vcheck.run_tlc(ctx.wd, "TV_Call", env={"VERIF_TRACE": rec}, timeout=1800, subdir="tv", tag="TV_Call_suite")
    if "Model checking completed. No error has been found." not in res["out"]:
        raise ToolError("TV_Call on the suite trace failed:\n" + "\n".join(res["out"].splitlines()[-30:]))
    ctx.states += res["distinct"]; ctx.transitions += res["states"]
    lines = open(rec).read().splitlines()
    nbad = 0
    for mm in re.finditer(r'<<"VERDICT", (\d+), "([\w-]+)">>', res["out"]):
        if mm.group(2) == "skipped":
            continue
        r = json.loads(lines[int(mm.group(1)) - 1])
        nbad += 1
        ctx.verdicts.add({"kind": "mismatch", "why": "a call made by the repository's own test suite disagrees with the specification (%s)" % mm.group(2),
                          "sc": [] if mm.group(2) in ("variant-drift", "open-body") else [ctx.pid],
                          "rule": r["plain"]["rule"], "data": r["plain"]["data"], "expected": "Eval(rule, data)", "actual": r["plain"]["out"], "profile": "test-profile"}, "suite-trace")
    ctx.evaluations += len(lines); ctx.validated += len(lines) - nbad
    ctx.validate_events(ev, "suite-trace")
    ctx.notes["suite_trace"] = info
    log("  suite trace: %d apply calls made by the repository's own tests (%d distinct) validated by TLC" % (info["calls"], info["distinct_records"]))


def plan_C05(ctx):
    ctx.rule = ("TLC model-checks the small-step machine on if / ?: / and / or x every operand list of length 0..5 over the alphabet {truthy log probe, falsy log probe "
                "(distinct falsy value per position), eval-poison, parse-poison, positional data reference%s} and lengths 6%s over {probes, eval-poison}; each terminal state "
                "is one replayed case with its exact log sequence; every call's hook-event stream (enter/log/ret) is validated by TLC against the machine; a case is "
                "non-trivial when it is distinct (all lists are)" % (", truthy/falsy literals, nested and" if ctx.deep else "", "..7" if ctx.deep else ""))
    ctx.machine("C05")
    ctx.records("ctl")
    if ctx.deep:
        suite_traces(ctx)
    ctx.exhaustive = True   # the TLC-enumerated family; the random records on top of it are sampled


def plan_C04(ctx):
    ctx.rule = ("(i) TLC model-checks the small-step machine on 35 rules x 3 data whose fields hold rule-shaped markers ({\"var\":\"secret\"}, {\"log\":\"LEAK\"}, {\"+\":[\"x\"]}, "
                "{\"if\":..}) reached through var hits, defaults, map/filter/reduce, computed collections of all/some/none, merge, if/and/or, cat/in/==; "
                "(ii) the substitution law over 22 eager operators x all operand tuples of accepted length <= 3 from 14 operand expressions, both spellings exported; "
                "(iii) every call's hook-event stream is validated by TLC against the machine (no evaluation of a non-rule term, no second evaluation)")
    ctx.machine("C04")
    cases = ctx.mc("MC_C04")
    ev = os.path.join(ctx.wd, "events-subst.ndjson")
    ctx.replay(cases, profiles=("debug",), extra=["--events", ev], source="substitution")
    ctx.replay(cases, profiles=("release",), source="substitution")
    ctx.validate_events(ev, "substitution")
    ctx.records("mix")
    if ctx.deep:
        suite_traces(ctx)
    ctx.exhaustive = True   # the TLC-enumerated family; the random records on top of it are sampled


def plan_C17(ctx):
    ctx.rule = ("TLC explores every interleaving (one step per call begin / log line / call end) of 2 threads x every pair of 20 short programs and 3 threads x every triple of 7 programs "
                "over a shared pool of %d rules x %d data (TLC also checks that this model refines the protocol proved with TLAPS in CallsProof.tla), 8 and 16 threads by program assignment only (incl. the cross-talk programs: every ordered pair of 8 operators of different coercion families on one leaf value, 128 calls per thread): history independence, inputs untouched, stdout = interleaving of whole lines in per-thread order, termination; "
                "each program assignment is executed on real threads over shared inputs (%d staggered concurrent rounds + a sequential and a reversed pass), every call's "
                "outcome compared with the isolated specification outcome, inputs snapshotted before/after, stdout lines counted and parsed, per-thread hook-event streams "
                "validated by TLC against the machine" % (ncorp("C17.json", "R17"), ncorp("C17.json", "D17"), 20 if ctx.deep else 5))
    bins = ctx.bins(("debug", "release"))
    allh = os.path.join(ctx.wd, "histories.ndjson")
    open(allh, "w").close()
    for fam in ("T2", "T3", "T8", "T16"):
        h = ctx.mc("MC_C17", env={"VERIF_FAMILY": fam}, tag="MC_C17_" + fam)
        # termination under weak fairness (a property of the model only): two threads on every change, three in thorough
        if fam == "T2" or (fam == "T3" and ctx.deep):
            ctx.mc("MC_C17", cfg="MC_C17_live", env={"VERIF_FAMILY": fam}, tag="MC_C17_live_" + fam, export=False)
        with open(allh, "a") as f:
            f.write(open(h).read())
    for prof in ("debug", "release"):
        outp = os.path.join(ctx.wd, "hist-%s.out" % prof)
        ev = os.path.join(ctx.wd, "hist-events-%s.ndjson" % prof)
        so = os.path.join(ctx.wd, "hist-stdout-%s.txt" % prof)
        with open(so, "wb") as sof:
            import subprocess
            exl = os.path.join(ctx.wd, "hist-expected-lines-%s.txt" % prof)
            p = subprocess.run([bins[prof], "hist", allh, outp, "--events", ev, "--lines", exl, "--seed", str(ctx.seed), "--reps", "20" if ctx.deep else "5"], stdout=sof, stderr=subprocess.PIPE)
        if p.returncode != 0:
            raise ToolError("harness hist failed: " + p.stderr.decode()[-2000:])
        # "its only externally visible effect is the single line written by each evaluated log": nothing on standard error
        errtxt = p.stderr.decode("utf-8", "replace").strip()
        if errtxt:
            ctx.verdicts.add({"kind": "mismatch", "why": "the calls wrote to standard error (%d lines), first line: %s" % (len(errtxt.splitlines()), errtxt.splitlines()[0][:200]),
                              "sc": ["C17"], "rule": "(all histories)", "data": "", "expected": "nothing on standard error", "actual": errtxt[:300], "profile": prof}, "histories-stderr/" + prof)
        summary, mism = None, []
        for line in open(outp):
            r = json.loads(line)
            if r.get("summary"):
                summary = r
            else:
                mism.append(r)
        for r in mism:
            r["profile"] = prof
            ctx.verdicts.add(r, "histories/" + prof)
        ctx.evaluations += summary["cases"]
        ctx.validated += summary["matched"]
        for smp in summary.get("samples", []):
            if len(ctx.samples) < 6:
                ctx.samples.append(smp)
        # standard output: exactly one whole line per evaluated log, each line the JSON text of a value
        lines = open(so, "rb").read().split(b"\n")
        if lines and lines[-1] == b"":
            lines.pop()
        badlines = 0
        for ln in lines:
            try:
                json.loads(ln.decode("utf-8"))
            except Exception:
                badlines += 1
        import collections
        want = collections.Counter(open(exl, "rb").read().split(b"\n")[:-1])
        got = collections.Counter(lines)
        if want != got:
            diff = list((got - want).items())[:3] + list((want - got).items())[:3]
            ctx.verdicts.add({"kind": "mismatch", "why": "the lines on stdout are not exactly one line per evaluated log with the logged value's JSON text; differing lines (text, count): %r" % diff,
                              "sc": ["C17"], "rule": "(all histories)", "data": "", "expected": "multiset of %d lines" % sum(want.values()), "actual": "multiset of %d lines" % sum(got.values()), "profile": prof}, "histories-stdout/" + prof)
        if len(lines) != summary["expected_log_lines"] or badlines:
            ctx.verdicts.add({"kind": "mismatch", "why": "stdout of the threaded run has %d lines (%d not valid JSON), the specification expects %d whole lines" % (len(lines), badlines, summary["expected_log_lines"]),
                              "sc": ["C17"], "rule": "(all histories)", "data": "", "expected": summary["expected_log_lines"], "actual": len(lines), "profile": prof}, "histories-stdout/" + prof)
        log("  histories [%s]: %d histories, %d calls on real threads, %d agree, %d mismatch; stdout %d whole lines (expected %d)" % (
            prof, summary["histories"], summary["cases"], summary["matched"], summary["mismatched"], len(lines), summary["expected_log_lines"]))
        ctx.notes.setdefault("histories", []).append({"profile": prof, "histories": summary["histories"], "calls": summary["cases"], "stdout_lines": len(lines)})
        if prof == "debug":
            ctx.validate_events(ev, "histories-" + prof)
    ctx.nontrivial.update(("hist", i) for i in range(summary["histories"]))
    if ctx.deep:
        # the TLAPS proof of the abstract call protocol (all thread counts, programs, outcome functions); Calls.tla is
        # checked by TLC to refine it (PROPERTY RefinesProvedProtocol of MC_C17).  A prover that does not answer is
        # reported, it is not a verdict about the code and does not change the exit status.
        rc, out = vcheck.run([os.path.join(vcheck.VERIF, "bin", "prove"), "1500"], timeout=1800)
        last = out.strip().splitlines()[-1] if out.strip() else "no output"
        log("  TLAPS CallsProof.tla: " + (last if rc == 0 else "NOT RE-CHECKED in this run (%s)" % last))
        ctx.notes["tlaps_callsproof"] = {"rechecked": rc == 0, "result": last}
    ctx.machine("C04", live=False, profiles=("debug",))
    ctx.records("mix")
    ctx.assumptions.append("instruction-level data races are not enumerated: the atomic step of the Calls model (one whole log line) is justified by apply taking &Value, "
                           "the crate having no statics, interior mutability or unsafe code; real threads are exercised but schedules are sampled")


def run_cli_scenarios(ctx, scen, source, sc_prop=None):
    binp = vcheck.build_cli()
    b = ctx.bins(("debug",))["debug"]
    outp = scen.replace(".ndjson", "") + ".cli.out"
    rc, out = vcheck.run([b, "cli", scen, outp, "--bin", binp], stdout=__import__("subprocess").DEVNULL, stderr=__import__("subprocess").PIPE)
    if rc != 0:
        raise ToolError("harness cli failed: " + out[-2000:])
    summary, mism = None, []
    for line in open(outp):
        r = json.loads(line)
        if r.get("summary"):
            summary = r
        else:
            mism.append(r)
    for r in mism:
        if sc_prop:
            r["sc"] = list(set(r.get("sc", []) + [sc_prop]))
        ctx.verdicts.add(r, source)
    ctx.evaluations += summary["cases"]
    ctx.validated += summary["matched"]
    for smp in summary.get("samples", []):
        if len(ctx.samples) < 6:
            ctx.samples.append(smp)
    log("  cli %s: %d process runs of the real binary, %d agree, %d mismatch, %d crash, %d hang" % (source, summary["cases"], summary["matched"], summary["mismatched"], summary["crashed"], summary["hung"]))
    return summary


def plan_C18(ctx):
    ctx.rule = ("TLC runs the Cli protocol model for 19 rule-text classes (15 JSON rules incl. texts starting with '-', 4 invalid classes) x 14 data-text classes (9 JSON, 5 invalid incl. "
                "invalid UTF-8 on stdin) x 3 ways of supplying the data, and the two-process pipe composition for log-free first stages x 5 second rules; every terminal state is a "
                "scenario executed with the real release binary (guard off): exit status class, stdout lines, faithfulness to the in-process library result, and the actual stdout "
                "piped into a second real invocation")
    scen = ctx.mc("MC_C18")
    ctx.mc("MC_C18", cfg="MC_C18_live", export=False, tag="MC_C18_live")
    summary = run_cli_scenarios(ctx, scen, "cli-scenarios")
    if ctx.deep:
        # families of other properties through the real binary: control flow with positional log probes (log lines
        # before the result, nothing after a failure), var paths, string slicing
        for mod, env, tag, every in (("MC_Machine", {"VERIF_FAMILY": "C05"}, "MC_Machine_C05", 6), ("MC_C11", None, "MC_C11", 8), ("MC_C16", None, "MC_C16", 40)):
            cs = ctx.mc(mod, env=env, tag=tag)
            cli_s = os.path.join(ctx.wd, "deep-cli-%s.ndjson" % tag)
            cases_to_process_scenarios(cs, cli_s, os.path.join(ctx.wd, "deep-py-unused.ndjson"), every)
            run_cli_scenarios(ctx, cli_s, "cli-" + tag)
    with open(scen) as f:
        for i, line in enumerate(f):
            ctx.nontrivial.add(("scenario", i))
    ctx.exhaustive = True   # the TLC-enumerated family; the random records on top of it are sampled
    ctx.assumptions.append("documented flags (-h --help -V --version), a closed stdout (EPIPE) and argv that is not valid Unicode are outside the statement")


def build_pyext():
    """Builds the Python extension from /repo's working tree (guard off) and assembles the package as setup.py would."""
    import shutil, subprocess
    tdir = os.path.join(vcheck.WORK, "target-py")
    rc, out = vcheck.run(["cargo", "build", "--offline", "--release", "--features", "python", "--lib", "--target-dir", tdir],
                         cwd="/repo", env={"CARGO_NET_OFFLINE": "true", "RUSTFLAGS": ""})
    if rc != 0:
        raise ToolError("python extension build failed:\n" + out[-3000:])
    pkg = os.path.join(vcheck.WORK, "pypkg", "jsonlogic_rs")
    shutil.rmtree(os.path.join(vcheck.WORK, "pypkg"), ignore_errors=True)
    os.makedirs(pkg)
    shutil.copy("/repo/py/jsonlogic_rs/__init__.py", pkg)
    shutil.copy(os.path.join(tdir, "release", "libjsonlogic_rs.so"), os.path.join(pkg, "jsonlogic.so"))
    return os.path.join(vcheck.WORK, "pypkg")


def run_py_scenarios(ctx, scen, source):
    import subprocess
    pkgdir = build_pyext()
    outp = scen.replace(".ndjson", "") + ".py.out"
    prog = outp + ".progress"
    for f in (outp, prog):
        if os.path.exists(f):
            os.remove(f)
    # a hang inside the native call cannot be interrupted from Python: the driver runs as a child whose progress
    # file is watched; a stalled scenario is recorded as a hang and the driver is restarted after it
    import time as _t
    start, hangs, partial = 0, 0, []
    while True:
        p = subprocess.Popen(["python3", os.path.join(vcheck.VERIF, "py", "driver.py"), scen, outp, str(start)], env=dict(os.environ, PYTHONPATH=pkgdir),
                             stdout=subprocess.DEVNULL, stderr=subprocess.PIPE)
        last_change, last_sig = _t.time(), None
        stalled = False
        while p.poll() is None:
            _t.sleep(0.5)
            sig = os.path.getmtime(prog) if os.path.exists(prog) else None
            if sig != last_sig:
                last_sig, last_change = sig, _t.time()
            elif _t.time() - last_change > 30:
                p.kill(); p.wait(); stalled = True
                break
        if not stalled and p.returncode == 0:
            break
        cur = open(prog).read() if os.path.exists(prog) else "0\n?"
        idx = int(cur.split("\n", 1)[0]) if cur.split("\n", 1)[0].isdigit() else start
        hangs += 1
        ctx.verdicts.add({"kind": "hang" if stalled else "crash",
                          "why": ("no return from the extension within 30 s" if stalled else "the Python interpreter exited with status %s: %s" % (p.returncode, p.stderr.read().decode()[-300:])),
                          "sc": ["C19", "C01"], "entry": "python", "rule": cur.split("\n", 1)[-1][:600], "data": "", "expected": "a return value or ValueError", "actual": "hang" if stalled else "interpreter crash",
                          "profile": "python-ext-release"}, source)
        start = idx + 1
        if hangs >= 5:
            log("  (python driver: stopped after %d hangs/crashes)" % hangs)
            open(outp, "a").write(json.dumps({"summary": True, "cases": start, "matched": 0, "mismatched": 0, "crashed": hangs, "hung": hangs, "samples": [], "profile": "python-ext-release"}) + "\n")
            break
    summary, mism = None, []
    for line in open(outp):
        r = json.loads(line)
        if r.get("summary"):
            summary = r
        else:
            mism.append(r)
    for r in mism:
        if ctx.pid not in r.get("sc", []):
            r["sc"] = r.get("sc", []) + [ctx.pid] if (r.get("kind") == "crash" or "raised" in r.get("why", "")) else r.get("sc", [])
        ctx.verdicts.add(r, source)
    ctx.evaluations += summary["cases"]
    ctx.validated += summary["matched"]
    for smp in summary.get("samples", []):
        if len(ctx.samples) < 6:
            ctx.samples.append(smp)
    log("  python %s: %d calls into the built extension, %d agree, %d mismatch" % (source, summary["cases"], summary["matched"], summary["mismatched"]))
    return summary


def plan_C19(ctx):
    ctx.rule = ("TLC runs the PyIface step model for apply x (20 rules + NaN) x (data omitted, 10 values, NaN) x serializer omitted/supplied x deserializer omitted/supplied and "
                "apply_serialized x (20 rule texts + 4 malformed classes) x (data omitted, 10 texts, 4 malformed classes) x deserializer omitted/supplied; each terminal state is a "
                "scenario executed against the extension built from the working tree: returned value compared type-strictly with the specification's, exception type must be ValueError, "
                "supplied callables must be called (2 serializer calls, 1 deserializer call)")
    scen = ctx.mc("MC_C19")
    ctx.mc("MC_C19", cfg="MC_C19_live", export=False, tag="MC_C19_live")
    run_py_scenarios(ctx, scen, "python-scenarios")
    # sequences: scalars that compare/hash equal in Python (True == 1 == 1.0, 0.0 == -0.0 == False) passed one after the
    # other in one interpreter: each call must still return exactly its own argument (no state between calls)
    seq = os.path.join(ctx.wd, "py-sequences.ndjson")
    TT, FF = {"t": "b", "v": True}, {"t": "b", "v": False}
    def num(text, k, s_, m, e):
        return {"t": "n", "k": k, "s": s_, "m": m, "e": e, "x": [ord(ch) for ch in text]}
    ONEF, ONEI, ZF, NZF, ZI = num("1.0", "f", 0, [0, 0, 0, 128], -52), num("1", "i", 0, [1], 0), num("0.0", "f", 0, [], 0), num("-0.0", "f", 1, [], 0), num("0", "i", 0, [], 0)
    IDENT = {"t": "o", "v": [[[118, 97, 114], {"t": "s", "v": []}]]}
    order = [TT, ONEF, ONEI, TT, FF, ZF, NZF, ZI, FF, NZF, ZF, ONEI, ONEF, TT, ZI, NZF]
    with open(seq, "w") as f:
        for rep in range(2):
            for dv in order:
                f.write(json.dumps({"id": ["seq", rep], "entry": "apply", "value": {"valid": True, "v": IDENT}, "data": {"valid": True, "v": dv}, "ser": "omitted", "deser": "omitted",
                                    "exp": {"kind": "return", "v": dv, "via": "std"}}) + "\n")
                f.write(json.dumps({"id": ["seqv", rep], "entry": "apply", "value": {"valid": True, "v": dv}, "data": {"valid": True, "omitted": True}, "ser": "omitted", "deser": "omitted",
                                    "exp": {"kind": "return", "v": dv, "via": "std"}}) + "\n")
    run_py_scenarios(ctx, seq, "python-sequences")
    if ctx.deep:
        for mod, env, tag, every in (("MC_C11", None, "MC_C11", 4), ("MC_C10", None, "MC_C10", 30), ("MC_C16", None, "MC_C16", 40), ("MC_Machine", {"VERIF_FAMILY": "C05"}, "MC_Machine_C05", 8)):
            cs = ctx.mc(mod, env=env, tag=tag)
            py_s = os.path.join(ctx.wd, "deep-py-%s.ndjson" % tag)
            cases_to_process_scenarios(cs, os.path.join(ctx.wd, "deep-cli-unused.ndjson"), py_s, every)
            run_py_scenarios(ctx, py_s, "python-" + tag)
    with open(scen) as f:
        for i, line in enumerate(f):
            ctx.nontrivial.add(("scenario", i))
    ctx.exhaustive = True   # the TLC-enumerated family; the random records on top of it are sampled
    ctx.assumptions.append("objects json.dumps itself rejects are outside the statement (the exception then comes from the serializer, not the library); CPython 3.11 of this image")


def cases_to_process_scenarios(cases_path, out_cli, out_py, every):
    """Turn exported in-process cases into scenarios for the real CLI binary and the Python extension."""
    n = 0
    with open(out_cli, "w") as fc, open(out_py, "w") as fp:
        for i, line in enumerate(open(cases_path)):
            c = json.loads(line)
            if c.get("fn"):
                continue
            ident = c.get("id")
            keep = (i % every == 0) or (isinstance(ident, list) and ident and ident[0] == "data")
            if not keep:
                continue
            n += 1
            exp = c["exp"]
            lines = list(exp["log"]) + ([exp["v"]] if exp["ok"] else [])
            # C01 pins the outcome class at the process boundary: exit status 0/1 and no crash; the lines are compared too
            fc.write(json.dumps({"id": ident, "rule": {"valid": True, "v": c["rule"]}, "mode": 1 + (n % 3), "data": {"valid": True, "v": c["data"]},
                                 "exp": {"status": "zero" if exp["ok"] else "nonzero", "out": lines}, "pipe": []}) + "\n")
            fp.write(json.dumps({"id": ident, "entry": "apply", "value": {"valid": True, "v": c["rule"]}, "data": {"valid": True, "v": c["data"]},
                                 "ser": "omitted", "deser": "omitted",
                                 "exp": {"kind": "return", "v": exp["v"], "via": "std"} if exp["ok"] else {"kind": "raise", "exc": "ValueError"}}) + "\n")
    return n


def run_nest(ctx, profiles):
    bins = ctx.bins(profiles)
    for prof in profiles:
        outp = os.path.join(ctx.wd, "nest-%s.out" % prof)
        rc, out = vcheck.run([bins[prof], "nest", outp] + (["--deep"] if ctx.deep else []))
        if rc != 0:
            raise ToolError("harness nest failed: " + out[-2000:])
        summary = None
        for line in open(outp):
            r = json.loads(line)
            if r.get("summary"):
                summary = r
            else:
                ctx.verdicts.add(r, "nesting/" + prof)
        ctx.evaluations += summary["cases"]
        ctx.validated += summary["matched"]
        ctx.samples.extend(summary.get("samples", [])[:2])
        ctx.notes.setdefault("nesting", []).append({"profile": summary["profile"], "child_processes": summary["cases"], "classes": summary["classes"], "crashed": summary["crashed"]})
        log("  nesting [%s]: %d child processes (37 shapes x nesting levels up to and beyond the parser's limit x 8 MiB / 2 MiB stacks): %s, %d crashed" % (
            summary["profile"], summary["cases"], summary["classes"], summary["crashed"]))


def plan_C01(ctx):
    ctx.rule = ("(i) TLC evaluates every semantic function of the specification on every tag of value in every operand position of all 35 operators at counts 0..4, and on 41 extreme "
                "values (all 64-bit / double boundaries, 4-byte characters, odd path strings) in every position of otherwise benign operand lists and as the data under lookups "
                "(totality of the spec; termination, deadlock-freedom and the stack bound of the machine are model-checked on the C05 family); (ii) every case is replayed in THREE build "
                "profiles (debug, release, release+overflow-checks): any panic, abort or hang is a violation, Ok/Err must be the specification's; (iii) 37 nesting shapes x levels up to and "
                "beyond JSON depth 128 are built as text and evaluated in child processes on 8 MiB and 2 MiB stacks; every returned error is rendered (Display, Debug) inside the guarded call; (iv) a sample of the family is run through the real CLI binary "
                "(exit status 0/1, no signal, no panic message) and the built Python extension (only ValueError)")
    profiles = ("debug", "release", "relchk")
    cases = ctx.mc("MC_C01")
    ctx.replay(cases, profiles=profiles)
    ctx.mc("MC_Machine", cfg="MC_Machine_live", env={"VERIF_FAMILY": "C05"}, tag="MC_Machine_live_C05", export=False)
    ctx.mc("MC_Machine", env={"VERIF_FAMILY": "C14"}, tag="MC_Machine_C14", export=True)
    run_nest(ctx, profiles)
    cli_s = os.path.join(ctx.wd, "proc-cli.ndjson")
    py_s = os.path.join(ctx.wd, "proc-py.ndjson")
    n = cases_to_process_scenarios(cases, cli_s, py_s, 4 if ctx.deep else 16)
    # texts nested far beyond / right at the parser's recursion limit, through the real process boundaries
    T = {"t": "b", "v": True}
    with open(cli_s, "a") as f:
        for cls, status, outl in (("deep100k", "nonzero", []), ("deepobj100k", "nonzero", []), ("nest126", "zero", [T])):
            for mode in (1, 2, 3):
                f.write(json.dumps({"id": ["deeptext", cls, mode], "rule": {"valid": False, "cls": cls}, "mode": mode, "data": {"valid": True, "v": {"t": "z"}},
                                    "exp": {"status": status, "out": outl}, "pipe": []}) + "\n")
                if cls != "nest126":
                    f.write(json.dumps({"id": ["deepdata", cls, mode], "rule": {"valid": True, "v": {"t": "z"}}, "mode": mode, "data": {"valid": False, "cls": cls},
                                        "exp": {"status": "nonzero", "out": []}, "pipe": []}) + "\n")
    with open(py_s, "a") as f:
        for cls, exp in (("deep100k", {"kind": "raise", "exc": "ValueError"}), ("deepobj100k", {"kind": "raise", "exc": "ValueError"}), ("nest126", {"kind": "return", "v": T, "via": "std"})):
            f.write(json.dumps({"id": ["deeptext", cls], "entry": "apply_serialized", "value": {"valid": False, "cls": cls}, "data": {"valid": True, "omitted": True},
                                "ser": "omitted", "deser": "omitted", "exp": exp}) + "\n")
            if cls != "nest126":
                f.write(json.dumps({"id": ["deepdata", cls], "entry": "apply_serialized", "value": {"valid": True, "v": {"t": "z"}}, "data": {"valid": False, "cls": cls},
                                    "ser": "omitted", "deser": "omitted", "exp": {"kind": "raise", "exc": "ValueError"}}) + "\n")
    run_cli_scenarios(ctx, cli_s, "cli-extremes", sc_prop="C01")
    run_py_scenarios(ctx, py_s, "python-extremes")
    if ctx.deep:
        # the index / cast / conversion heavy families of other properties, in the overflow-checked release profile as well
        for mod, env in (("MC_C11", None), ("MC_C16", None), ("MC_C12", None), ("MC_C10", None)):
            cs = ctx.mc(mod, env=env)
            ctx.replay(cs, profiles=("relchk",))
    ctx.records("mix", n=(60000 if ctx.deep else 6000))
    if ctx.deep:
        # non-vacuity and binding of the machinery itself: spec mutants must be killed, corrupted traces rejected
        rc, out = vcheck.run([os.path.join(vcheck.VERIF, "bin", "selftest")], timeout=3600)
        log("  selftest: " + (out.strip().splitlines()[-1] if out.strip() else "no output"))
        if rc != 0:
            raise ToolError("bin/selftest failed:\n" + out[-3000:])
        ctx.notes["selftest"] = json.load(open(os.path.join(vcheck.VERIF, "selftest-results.json")))
    ctx.assumptions.append("hangs are detected by a watchdog on the code (20 s) and proved absent only for the specification (machine termination under weak fairness)")
    ctx.assumptions.append("not every 64-bit integer / double: boundary classes of each abs, try_into, checked_*, cast and comparison in the code, plus the families of the other properties")


PLANS = {
    "C01": plan_C01,
    "C19": plan_C19,
    "C18": plan_C18,
    "C17": plan_C17,
    "C04": plan_C04,
    "C05": plan_C05,
    "C15": plan_C15,
    "C16": plan_C16,
    "C14": plan_C14,
    "C13": plan_C13,
    "C12": plan_C12,
    "C11": plan_C11,
    "C10": plan_C10,
    "C07": plan_rel,
    "C08": plan_rel,
    "C09": plan_rel,
    "C03": plan_C03,
    "C02": plan_C02,
    "C06": plan_C06,
}
