#!/usr/bin/env python3
"""Regenerate MANIFEST.json from the plans table (lib/plans.py) and the level texts below."""
import json, os, sys
sys.path.insert(0, os.path.dirname(os.path.abspath(__file__)))
import plans
VERIF = os.path.dirname(os.path.dirname(os.path.abspath(__file__)))
props = [json.loads(l) for l in open(os.path.join(VERIF, "properties.jsonl"))]
TEXT = json.load(open(os.path.join(VERIF, "lib", "levels.json")))
NOTE = ("Trusted base: TLC 1.8.0 evaluating the TLA+ specification; serde_json as the text<->value projection; the harness's AJ codec "
        "(self-tested each run). Bounded families and seeded random records, not all inputs. The specification states the intended "
        "behaviour of the property; the code is bound to it by replaying every TLC-enumerated case and by TLC-validating recorded executions.")
checks, na = [], []
for p in props:
    pid = p["id"]
    if pid in plans.PLANS and pid in TEXT:
        t = TEXT[pid]
        checks.append({
            "property_id": pid,
            "quick_cmd": "bin/check %s quick" % pid,
            "thorough_cmd": "bin/check %s thorough" % pid,
            "evidence_file": "evidence/%s.json" % pid,
            "replay_cmd_template": "bin/replay {path}",
            "engine": t.get("engine", "tlc+replay"),
            "level_claimed": {"category": "model_checking", "text": t["text"], "design_ref": t.get("design_ref", "DESIGN.md section 6")},
            "level_note": t.get("note", NOTE),
            "technique": t.get("technique", "TLA+ specification model-checked with TLC; spec-to-code replay of TLC-enumerated cases and TLC validation of recorded executions"),
        })
    else:
        na.append({"property_id": pid, "reason": TEXT.get(pid, {}).get("na", "check under construction; not yet claimed")})
m = {
    "version": 1,
    "setup_cmd": "bin/setup",
    "hooks": {"guard": "jsonlogic_rs_verif",
              "enable": "rustflags --cfg jsonlogic_rs_verif (set in /verif/harness/.cargo/config.toml; the harness has a path dependency on /repo)",
              "baseline_off_cmd": "cd /repo && cargo test --workspace --no-fail-fast --offline",
              "source_commits": json.load(open(os.path.join(VERIF, "lib", "hook_commits.json"))),
              "add_only": True},
    "engines": [{"name": "tlc+replay", "path": "bin/check", "serves_properties": [c["property_id"] for c in checks],
                 "kind_free_text": "explicit TLA+ specification (spec/*.tla) model-checked by TLC over bounded families (spec/mc); every TLC-enumerated case is replayed into the real interpreter (harness/), and executions recorded from the real interpreter (random drivers, hook event streams, CLI and Python processes) are validated by TLC against the specification (spec/tv)"}],
    "checks": checks,
    "not_applicable": na,
    "notes": "See DESIGN.md. Exit codes: 0 held, 1 violation (VIOLATION line + replay file), 2 tool error.",
}
json.dump(m, open(os.path.join(VERIF, "MANIFEST.json"), "w"), indent=1)
print("MANIFEST: %d checks, %d not_applicable" % (len(checks), len(na)))
