"""Orchestrator of the model-based checks (see bin/check)."""
import json, os, re, subprocess, sys, time, shutil, glob

VERIF = os.path.dirname(os.path.dirname(os.path.abspath(__file__)))
WORK = os.path.join(VERIF, "work")
SPEC = os.path.join(VERIF, "spec")
HARNESS = os.path.join(VERIF, "harness")
TARGET = os.path.join(WORK, "target")
NCPU = os.cpu_count() or 4

PROFILES = {
    "debug": (["cargo", "build", "--offline"], "debug"),
    "release": (["cargo", "build", "--offline", "--release"], "release"),
    "relchk": (["cargo", "build", "--offline", "--profile", "relchk"], "relchk"),
}


class ToolError(Exception):
    pass


def log(msg):
    print(msg, flush=True)


def run(cmd, cwd=None, env=None, timeout=None, stdout=subprocess.PIPE, stderr=subprocess.STDOUT):
    e = dict(os.environ)
    if env:
        e.update(env)
    p = subprocess.run(cmd, cwd=cwd, env=e, timeout=timeout, stdout=stdout, stderr=stderr)
    out = p.stdout.decode("utf-8", "replace") if p.stdout is not None else ""
    return p.returncode, out


def build_harness(profiles):
    """Builds the harness (and with it /repo's working tree, hooks on) in the given profiles."""
    bins = {}
    for prof in profiles:
        cmd, d = PROFILES[prof]
        rc, out = run(cmd, cwd=HARNESS, env={"CARGO_NET_OFFLINE": "true"})
        if rc != 0:
            raise ToolError("harness build failed (%s):\n%s" % (prof, out[-4000:]))
        bins[prof] = os.path.join(TARGET, d, "jlverif")
    rc, out = run([bins[profiles[0]], "selftest"])
    if rc != 0:
        raise ToolError("harness selftest failed: " + out)
    return bins


def build_cli():
    """Builds the real `jsonlogic` binary from /repo's working tree, guard OFF (production configuration)."""
    tdir = os.path.join(WORK, "target-cli")
    rc, out = run(["cargo", "build", "--offline", "--release", "--features", "cmdline", "--bin", "jsonlogic",
                   "--target-dir", tdir], cwd="/repo", env={"CARGO_NET_OFFLINE": "true", "RUSTFLAGS": ""})
    if rc != 0:
        raise ToolError("CLI build failed:\n" + out[-4000:])
    return os.path.join(tdir, "release", "jsonlogic")


def encode_corpus(binpath, wd):
    cdir = os.path.join(wd, "corpus")
    os.makedirs(cdir, exist_ok=True)
    for f in sorted(glob.glob(os.path.join(VERIF, "corpus", "*.json"))):
        rc, out = run([binpath, "encode", f, cdir])
        if rc != 0:
            raise ToolError("corpus encode failed for %s: %s" % (f, out))
    return cdir


TLC_SUMMARY = re.compile(r"(\d+) states generated, (\d+) distinct states found")


def run_tlc(wd, module, cfg=None, env=None, workers=None, timeout=1800, extra=None, subdir="mc", tag=None):
    """Runs TLC on spec/<subdir>/<module>.tla. Returns dict(states, distinct, out, error)."""
    tag = tag or module
    twd = os.path.join(wd, "tlc-" + tag)
    shutil.rmtree(twd, ignore_errors=True)
    os.makedirs(twd, exist_ok=True)
    e = {"VERIF_CORPUS": os.path.join(wd, "corpus"), "VERIF_TIER": os.environ.get("VERIF_TIER_EFFECTIVE", "quick"),
         "TLC_XMX": os.environ.get("TLC_XMX", "16g")}
    if env:
        e.update(env)
    cmd = [os.path.join(VERIF, "bin", "tlcrun"), twd, str(timeout), "-workers", str(workers or min(NCPU, 16)),
           "-config", (cfg or module) + ".cfg"] + (extra or []) + [module + ".tla"]
    t0 = time.time()
    rc, out = run(cmd, cwd=os.path.join(SPEC, subdir), env=e)
    with open(os.path.join(wd, "tlc-%s.out" % tag), "w") as f:
        f.write(out)
    shutil.rmtree(os.path.join(twd, "tmp"), ignore_errors=True)
    res = {"module": module, "rc": rc, "out": out, "wall_s": time.time() - t0, "states": 0, "distinct": 0}
    m = None
    for m in TLC_SUMMARY.finditer(out):
        pass
    if m:
        res["states"], res["distinct"] = int(m.group(1)), int(m.group(2))
    if rc == 124:
        raise ToolError("TLC timed out on %s after %ss" % (module, timeout))
    return res


def tlc_must_pass(res):
    """A TLC model-checking run of the specification itself must be clean: a violated invariant here
    means the specification is inconsistent (a tool error), never a verdict about the code."""
    if res["rc"] != 0 or "No error has been found" not in res["out"]:
        tail = "\n".join(res["out"].splitlines()[-60:])
        raise ToolError("TLC reported an error on the specification model %s (rc=%s):\n%s" % (res["module"], res["rc"], tail))


def replay(binpath, cases, outpath, extra=None, timeout=3600):
    rc, out = run([binpath, "replay", cases, outpath] + (extra or []), stdout=subprocess.DEVNULL, stderr=subprocess.PIPE, timeout=timeout)
    if rc != 0:
        raise ToolError("harness replay failed rc=%s: %s" % (rc, out[-2000:]))
    mism, summary = [], None
    with open(outpath) as f:
        for line in f:
            r = json.loads(line)
            if r.get("summary"):
                summary = r
            else:
                mism.append(r)
    if summary is None:
        raise ToolError("harness replay produced no summary: " + outpath)
    return summary, mism


# ---------------------------------------------------------------- known findings
def load_known():
    p = os.path.join(VERIF, "known_findings.json")
    if not os.path.exists(p):
        return []
    return json.load(open(p)).get("findings", [])


def match_known(known, pid, rec):
    """A finding matches by property and by the specific failing input (exact rule/data text, or a
    rule-shape regular expression together with a predicate name evaluated on the record)."""
    for k in known:
        if k.get("property") != pid:
            continue
        m = k.get("match", {})
        if "rule" in m and m["rule"] != rec.get("rule"):
            continue
        if "data" in m and m["data"] != rec.get("data"):
            continue
        if "rule_regex" in m and not re.fullmatch(m["rule_regex"], rec.get("rule", "")):
            continue
        if "data_regex" in m and not re.fullmatch(m["data_regex"], rec.get("data", "")):
            continue
        if "kind" in m and m["kind"] != rec.get("kind"):
            continue
        if "entry" in m and m["entry"] != rec.get("entry", "apply"):
            continue
        return k
    return None


class Verdicts:
    def __init__(self, pid, wd):
        self.pid, self.wd = pid, wd
        self.known = load_known()
        self.violations, self.knownhits, self.drift, self.other = [], {}, [], []
        self.rdir = os.path.join(wd, "replay")
        shutil.rmtree(self.rdir, ignore_errors=True)
        os.makedirs(self.rdir, exist_ok=True)

    def add(self, rec, source):
        """rec: a mismatch record with fields rule, data, sc, kind, why, expected, actual, profile."""
        pid = self.pid
        sc = rec.get("sc") or []
        rec = dict(rec)
        rec["source"] = source
        inscope = pid in sc or (pid == "C01" and rec.get("kind") in ("crash", "hang"))
        if rec.get("kind") in ("crash", "hang") and sc:
            inscope = inscope or pid in sc
        if not inscope:
            (self.other if sc else self.drift).append(rec)
            return
        k = match_known(self.known, pid, rec)
        if k is not None:
            self.knownhits.setdefault(k.get("id", k.get("what", "?")), [k, 0])[1] += 1
            return
        self.violations.append(rec)

    def report(self, maxlines=40):
        for kid, (k, n) in sorted(self.knownhits.items()):
            log("KNOWN-FINDING: property=%s %s [%s; %d matching cases in this run]" % (self.pid, k.get("what", ""), kid, n))
        if self.other:
            byp = {}
            for r in self.other:
                byp.setdefault(",".join(r.get("sc") or []), []).append(r)
            for p, rs in sorted(byp.items()):
                log("NOTE: %d disagreement(s) on cases pinned by %s, not by %s (decided by that property's own check), e.g. rule=%s data=%s" % (
                    len(rs), p, self.pid, trunc(rs[0].get("rule"), 120), trunc(rs[0].get("data"), 80)))
        for i, rec in enumerate(self.drift[:10]):
            log("SPEC-DRIFT: outside every property statement: rule=%s data=%s (%s)" % (rec.get("rule"), rec.get("data"), rec.get("why")))
        if len(self.drift) > 10:
            log("SPEC-DRIFT: ... %d more" % (len(self.drift) - 10))
        for i, rec in enumerate(self.violations):
            if i >= 200:
                break
            path = os.path.join(self.rdir, "%04d.json" % (i + 1))
            rec["property"] = self.pid
            rec["replay_cmd"] = "bin/replay " + path
            with open(path, "w") as f:
                json.dump(rec, f, indent=1)
            if i < maxlines:
                log("VIOLATION property=%s replay=%s" % (self.pid, path))
                log("   %s: rule=%s data=%s expected=%s actual=%s [%s, %s]" % (
                    rec.get("why"), trunc(rec.get("rule")), trunc(rec.get("data")), trunc(json.dumps(rec.get("expected"))),
                    trunc(json.dumps(rec.get("actual"))), rec.get("profile"), rec.get("source")))
        if len(self.violations) > maxlines:
            log("... %d violations in total (replay files for the first %d under %s)" % (len(self.violations), min(200, len(self.violations)), self.rdir))


def trunc(s, n=300):
    s = str(s)
    return s if len(s) <= n else s[:n] + "..."


def write_evidence(pid, tier, seed, cov, assumptions, wall, nviol):
    ev = {"property_id": pid, "tier": tier, "seed": seed, "level": "model_checking", "coverage": cov,
          "assumptions": assumptions, "wall_s": round(wall, 2), "violations": nviol}
    os.makedirs(os.path.join(VERIF, "evidence"), exist_ok=True)
    with open(os.path.join(VERIF, "evidence", pid + ".json"), "w") as f:
        json.dump(ev, f, indent=1)


BASE_ASSUMPTIONS = [
    "serde_json's text <-> value conversion is the trusted projection (JSON text fidelity is not modelled)",
    "TLC (tla2tools 1.8.0) evaluates the specification correctly; the AJ wire encoding round-trips (self-tested on every run)",
    "bounded families + seeded random records: not every 64-bit integer / double / string is enumerated",
]


def main(argv):
    if len(argv) < 2:
        print(__doc__)
        return 2
    pid, tier = argv[0], argv[1]
    if tier not in ("quick", "thorough"):
        print("tier must be quick or thorough")
        return 2
    os.environ["VERIF_TIER_EFFECTIVE"] = tier
    seed = int(os.environ.get("VERIF_SEED", "0") or 0)
    import plans
    if pid not in plans.PLANS:
        print("no plan for", pid)
        return 2
    t0 = time.time()
    wd = os.path.join(WORK, pid)
    os.makedirs(wd, exist_ok=True)
    try:
        ctx = plans.Ctx(pid, tier, seed, wd)
        plans.PLANS[pid](ctx)
        ctx.verdicts.report()
        nviol = len(ctx.verdicts.violations)
        cov = ctx.coverage()
        write_evidence(pid, tier, seed, cov, BASE_ASSUMPTIONS + ctx.assumptions, time.time() - t0, nviol)
        log("%s %s: %d spec states, %d cases replayed/validated against the code, %d violations, %d known, %d drift, %.1fs" % (
            pid, tier, cov.get("states", 0), cov.get("traces_validated_against_impl", 0), nviol,
            sum(n for _, n in ctx.verdicts.knownhits.values()), len(ctx.verdicts.drift), time.time() - t0))
        return 1 if nviol else 0
    except ToolError as e:
        log("TOOL-ERROR: %s" % e)
        return 2
    except subprocess.TimeoutExpired as e:
        log("TOOL-ERROR: timeout: %s" % e)
        return 2
